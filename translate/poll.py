"""Fail-closed translator: pybads/poll/poll_mads_2n.py (whole body of poll_mads_2n) and the refill block + evaluate / delete
statements of BADS._poll_step_ (pybads/bads/bads.py)  ->  coq/gen/Src_poll.v  (programs over the array language of
coq/Model/PollSrc.v).  Regenerated on every ./check C14; on ANY failure (also a crash of this file) the generated file is
replaced by a comment, so Props/C14src.v stops building and the tie on the generated program cannot run.

Code is located structurally (function / method by name, the one `while` of _poll_step_, the one `if` that contains the one
call of poll_mads_2n, the statement that reads `<candidates>[<index>]`, the np.delete on the same array), never by line number.

A. poll_mads_2n(dim_x, poll_scale, search_mesh_size, mesh_size)      parameters are identified BY POSITION
   module level: only imports, the function, a docstring; `np` must be numpy, `rnd` numpy.random (any alias names)
   statements, in order:
     <name> = E
     if A > B: / if A < B:      arms = assignments of ONE name (possibly several times, later ones may read earlier ones);
                                -> <name> = EIfLt ...   (`a > b` is read as `b < a`); an absent arm keeps the old value
     return E                   last statement
   expressions (with the shape kind inferred for every sub-expression: S scalar, V (D,), M (D,D), M2 (2D,D), VM = V or M):
     int / decimal literal (the rational it spells), names, + - * / unary -, np.maximum(a, b), np.round(a),
     rnd.randint(lo, hi, size=(dim, dim)) (once), rnd.randint(lo, hi, dim) (once), np.tril(M, -1), np.eye(dim),
     np.zeros(dim | (dim) | (dim, dim), dtype=...), rnd.permutation(M) (once), np.transpose(M) / M.T, np.vstack((M, M))
   Element-wise operators are read per entry with NumPy's broadcasting along the last axis (Model/PollSrc.v); any shape
   combination for which that reading is not NumPy's (M with M2, transpose / tril / permutation / vstack of a non-matrix,
   a VM value used otherwise than next to an M operand) raises.

B. BADS._poll_step_: inside the single `while`, the single `if` containing the single call of poll_mads_2n:
     <b> = poll_mads_2n(P, P, P, P)                 P = place of the state, see PLACES
     <name> = E                                      E over places, locals of the block, + - * /
     period_check(<local>, self.lower_bounds, self.upper_bounds, self.optim_state["periodic_vars"])     (identity: skipped)
     if self.options["force_poll_mesh"]: <x> = force_to_grid(<x>, P)      -> <x> = EIfFlag .. (s * round(x / s)) x
     <c> = contraints_check(E, self.lower_bounds, self.upper_bounds, self.optim_state["tol_mesh"], self.function_logger,
                            <bool literal | absent = the default in the callee's signature>, self.non_box_cons)
     if <set> is None: <set> = <c>.copy()  else: <set> = np.vstack(..)      (and the same for the basis)
   and in the body of the `while`:  <p> = <set>[<index> (+|- k)]   ...  self.function_logger(<p>)  ...
     <set> = np.delete(<set>, <index> (+|- k), axis=0);  no other store to <set> in the method except `<set> = None` before the loop.
   The while-guard, the break conditions and the bookkeeping after the evaluation belong to translate/loop.py (not touched).

Normalised (behaviour-preserving): names of parameters and locals, `a > b` = `b < a`, keyword / positional spelling of
`size=`, `k=`, `axis=`, `proj=`; `X.T` = np.transpose(X).  Nothing else: a changed operator, constant, operand order of a
non-commutative operator, call, place or statement order changes the generated definitions (the theorems of Props/C14src.v are
SEMANTIC, so a commuted product still checks, a different value does not).

`translate/poll_reference.json` holds the text of the definitions the proofs were written against; it is used ONLY to aim the search
(which part changed), never to decide anything.  `python -m translate.poll --write-reference` rewrites it.
"""
from __future__ import annotations

import ast
import json
import os
import re
import sys
from fractions import Fraction
from pathlib import Path

VERIF = Path(__file__).resolve().parent.parent
REPO = Path(os.environ.get("VERIF_REPO", "/repo"))
SRC_GEN = "pybads/poll/poll_mads_2n.py"
SRC_BADS = "pybads/bads/bads.py"
SRC_CC = "pybads/function_logger/constraints_check.py"
SRC_PC = "pybads/utils/period_check.py"
SRC_FG = "pybads/search/grid_functions.py"
OUT = VERIF / "coq" / "gen" / "Src_poll.v"
REF = Path(__file__).with_name("poll_reference.json")
PARAMS = ["dim_x", "poll_scale", "search_mesh_size", "mesh_size"]
PLACES = {  # place of the optimiser's state -> shape kind
    "self.D": "S", "self.u": "V", "temporary_data[poll_scale]": "V", "optim_state[mesh_size]": "S", "self.mesh_size": "S",
    "optim_state[search_mesh_size]": "S", "self.search_mesh_size": "S",
}
LAST = {}
_REGION = ["?"]


class Untranslatable(Exception):
    def __init__(self, msg, region=None):
        super().__init__(msg)
        self.region = region or _REGION[0]


def fail(node, why, src=None):
    where = f"{src or _REGION[0]}:{getattr(node, 'lineno', '?')}"
    txt = ast.dump(node)[:200] if isinstance(node, ast.AST) else str(node)
    raise Untranslatable(f"{where}: {why}: {txt}")


def region(r):
    _REGION[0] = r


# ----------------------------------------------------------------------------- IR -> Coq

def cq(fr: Fraction) -> str:
    return f"({fr.numerator} # {fr.denominator})"


def coq(ir) -> str:
    k = ir[0]
    if k == "num":
        return f"(ENum {cq(ir[1])})"
    if k == "var":
        return f'(EVar "{ir[1]}")'
    if k in ("EEye", "EZeros"):
        return k
    if k == "EIfFlag":
        return f'(EIfFlag "{ir[1]}" {coq(ir[2])} {coq(ir[3])})'
    return "(" + k + " " + " ".join(coq(x) for x in ir[1:]) + ")"


def join(a, b, node):
    """shape kind of an element-wise binary operation"""
    order = {"S": 0, "V": 1, "M": 2}
    if a in order and b in order:
        return a if order[a] >= order[b] else b
    if "M2" in (a, b):
        o = b if a == "M2" else a
        if o in ("S", "V", "M2"):
            return "M2"
        fail(node, f"element-wise operation between shapes {a} and {b}")
    if "VM" in (a, b):
        o = b if a == "VM" else a
        if o == "M":
            return "M"
        if o in ("S", "V", "VM"):
            return "VM"
    fail(node, f"element-wise operation between shapes {a} and {b}")


# ----------------------------------------------------------------------------- shared expression translation

def literal(node, text):
    seg = ast.get_source_segment(text, node) or ""
    if isinstance(node, ast.Constant) and type(node.value) in (int, float) and re.fullmatch(r"\d+(\.\d*)?|\.\d+", seg):
        return ("num", Fraction(seg if not seg.endswith(".") else seg + "0"))
    fail(node, "literal not in the grammar (plain int / decimal only)")


class Tr:
    """expression translator; env: python name -> (canonical name, kind); np / rnd alias names"""

    def __init__(self, text, np_name, rnd_name, dim_names, src):
        self.text, self.np, self.rnd, self.dim, self.src = text, np_name, rnd_name, set(dim_names), src
        self.env = {}
        self.once = {}
        self.places = None          # part B: dict place -> kind
        self.calls = {}             # part B: callables known by name

    def is_mod(self, f, mod, name):
        return isinstance(f, ast.Attribute) and isinstance(f.value, ast.Name) and f.value.id == mod and f.attr == name and mod is not None

    def use_once(self, what, node):
        if self.once.get(what):
            fail(node, f"second {what} (the random-call protocol is: entry draw, sign draw, one row permutation)", self.src)
        self.once[what] = True

    def is_dim(self, n):
        return isinstance(n, ast.Name) and n.id in self.dim and n.id not in self.shadow()

    def shadow(self):
        return set()

    def place_of(self, n):
        if self.places is None:
            return None
        if isinstance(n, ast.Attribute) and isinstance(n.value, ast.Name) and n.value.id == "self":
            return "self." + n.attr
        if isinstance(n, ast.Subscript) and isinstance(n.slice, ast.Constant) and isinstance(n.slice.value, str):
            b = n.value
            if isinstance(b, ast.Attribute) and isinstance(b.value, ast.Name):
                if b.value.id == "self" and b.attr in ("options", "optim_state"):
                    return f"{b.attr}[{n.slice.value}]"
                if b.value.id == self.gp_name and b.attr == "temporary_data":
                    return f"temporary_data[{n.slice.value}]"
        return None

    def ex(self, n):
        """-> (ir, kind)"""
        if isinstance(n, ast.Constant):
            return literal(n, self.text), "S"
        if isinstance(n, ast.Name):
            if n.id in self.env:
                c, k = self.env[n.id]
                return ("var", c), k
            fail(n, f"free name {n.id}", self.src)
        p = self.place_of(n)
        if p is not None:
            if p not in self.places:
                fail(n, f"place {p} is not one the refill block is known to read {sorted(self.places)}", self.src)
            return ("var", p), self.places[p]
        if isinstance(n, ast.UnaryOp) and isinstance(n.op, ast.USub):
            a, k = self.ex(n.operand)
            return ("ENeg", a), k
        if isinstance(n, ast.BinOp):
            ops = {ast.Add: "EAdd", ast.Sub: "ESub", ast.Mult: "EMul", ast.Div: "EDiv"}
            if type(n.op) not in ops:
                fail(n, "operator not in the grammar", self.src)
            a, ka = self.ex(n.left)
            b, kb = self.ex(n.right)
            return (ops[type(n.op)], a, b), join(ka, kb, n)
        if isinstance(n, ast.Attribute) and n.attr == "T" and self.places is None:
            a, k = self.ex(n.value)
            if k != "M":
                fail(n, f".T of shape {k}", self.src)
            return ("ETranspose", a), "M"
        if isinstance(n, ast.Call):
            return self.call(n)
        fail(n, "expression not in the grammar", self.src)

    def kwargs(self, n, names):
        """positional + keyword arguments -> list by parameter position (None when absent); raises on unknown keywords"""
        out = list(n.args) + [None] * (len(names) - len(n.args))
        if len(n.args) > len(names) or any(isinstance(a, ast.Starred) for a in n.args):
            fail(n, "too many / starred arguments", self.src)
        for kw in n.keywords:
            if kw.arg not in names:
                fail(n, f"keyword {kw.arg} not in the grammar", self.src)
            i = names.index(kw.arg)
            if out[i] is not None:
                fail(n, f"argument {kw.arg} given twice", self.src)
            out[i] = kw.value
        return out

    def call(self, n):
        f = n.func
        if self.places is not None:
            return self.call_b(n)
        if self.is_mod(f, self.np, "maximum"):
            a, b = self.kwargs(n, ["x1", "x2"])
            if a is None or b is None:
                fail(n, "np.maximum needs two arguments", self.src)
            (x, kx), (y, ky) = self.ex(a), self.ex(b)
            return ("EMax", x, y), join(kx, ky, n)
        if self.is_mod(f, self.np, "round"):
            (a,) = self.kwargs(n, ["a"])
            x, k = self.ex(a)
            return ("ERound", x), k
        if self.is_mod(f, self.rnd, "randint"):
            lo, hi, size = self.kwargs(n, ["low", "high", "size"])
            if lo is None or hi is None or size is None:
                fail(n, "randint needs low, high and size", self.src)
            (x, kx), (y, ky) = self.ex(lo), self.ex(hi)
            if kx != "S" or ky != "S":
                fail(n, "randint bounds are not scalars", self.src)
            if isinstance(size, ast.Tuple) and len(size.elts) == 2 and all(self.is_dim(e) for e in size.elts):
                self.use_once("entry draw randint(.., size=(dim, dim))", n)
                if self.once.get("sign draw randint(.., dim)") or self.once.get("rnd.permutation"):
                    fail(n, "the entry draw is not the first random call", self.src)
                return ("ERandM", x, y), "M"
            if self.is_dim(size) or (isinstance(size, ast.Tuple) and len(size.elts) == 1 and self.is_dim(size.elts[0])):
                self.use_once("sign draw randint(.., dim)", n)
                if self.once.get("rnd.permutation"):
                    fail(n, "the sign draw comes after the permutation", self.src)
                return ("ERandV", x, y), "V"
            fail(n, "randint size is neither (dim, dim) nor dim", self.src)
        if self.is_mod(f, self.np, "tril"):
            m, k = self.kwargs(n, ["m", "k"])
            if m is None or k is None or not (isinstance(k, ast.UnaryOp) and isinstance(k.op, ast.USub) and isinstance(k.operand, ast.Constant)
                                              and type(k.operand.value) is int and k.operand.value == 1):
                fail(n, "np.tril is not np.tril(X, -1)", self.src)
            x, kx = self.ex(m)
            if kx != "M":
                fail(n, f"np.tril of shape {kx}", self.src)
            return ("ETril1", x), "M"
        if self.is_mod(f, self.np, "eye"):
            (a,) = self.kwargs(n, ["N"])
            if not self.is_dim(a):
                fail(n, "np.eye of something else than the dimension", self.src)
            return ("EEye",), "M"
        if self.is_mod(f, self.np, "zeros"):
            shape, _dtype = self.kwargs(n, ["shape", "dtype"])
            if self.is_dim(shape) or (isinstance(shape, ast.Tuple) and len(shape.elts) == 1 and self.is_dim(shape.elts[0])):
                return ("EZeros",), "V"
            if isinstance(shape, ast.Tuple) and len(shape.elts) == 2 and all(self.is_dim(e) for e in shape.elts):
                return ("EZeros",), "M"
            fail(n, "np.zeros shape is neither dim nor (dim, dim)", self.src)
        if self.is_mod(f, self.rnd, "permutation"):
            (a,) = self.kwargs(n, ["x"])
            x, k = self.ex(a)
            if k != "M":
                fail(n, f"rnd.permutation of shape {k} (rows of the D x D matrix expected)", self.src)
            self.use_once("rnd.permutation", n)
            return ("EPermute", x), "M"
        if self.is_mod(f, self.np, "transpose"):
            (a,) = self.kwargs(n, ["a"])
            x, k = self.ex(a)
            if k != "M":
                fail(n, f"np.transpose of shape {k}", self.src)
            return ("ETranspose", x), "M"
        if self.is_mod(f, self.np, "vstack"):
            (a,) = self.kwargs(n, ["tup"])
            if not (isinstance(a, (ast.Tuple, ast.List)) and len(a.elts) == 2):
                fail(n, "np.vstack of something else than a pair", self.src)
            (x, kx), (y, ky) = self.ex(a.elts[0]), self.ex(a.elts[1])
            if kx != "M" or ky != "M":
                fail(n, f"np.vstack of shapes {kx}, {ky}", self.src)
            return ("EVstack", x, y), "M2"
        fail(n, "call not in the grammar", self.src)

    # ---- part B
    gp_name = None

    def call_b(self, n):
        f = n.func
        if isinstance(f, ast.Name) and f.id == self.calls.get("poll_mads_2n"):
            if n.keywords or len(n.args) != 4:
                fail(n, "poll_mads_2n is not called with four positional arguments", self.src)
            args = [self.ex(a) for a in n.args]
            want = ["S", "V", "S", "S"]
            if [k for _, k in args] != want:
                fail(n, f"argument shapes of poll_mads_2n are {[k for _, k in args]}, expected {want}", self.src)
            if args[0][0] != ("var", "self.D"):
                fail(n, "the dimension passed to poll_mads_2n is not self.D", self.src)
            self.use_once("call of poll_mads_2n", n)
            return ("ECallPoll",) + tuple(a for a, _ in args), "M2"
        if isinstance(f, ast.Name) and f.id == self.calls.get("force_to_grid"):
            if n.keywords or len(n.args) != 2:
                fail(n, "force_to_grid is not called as force_to_grid(x, search_mesh_size)", self.src)
            (x, kx), (s, ks) = self.ex(n.args[0]), self.ex(n.args[1])
            if ks != "S":
                fail(n, "grid size of force_to_grid is not a scalar", self.src)
            return ("EMul", s, ("ERound", ("EDiv", x, s))), kx          # search/grid_functions.py: tol * np.round(x / tol)  (C17grid)
        fail(n, "call not in the grammar of the refill block", self.src)


# ----------------------------------------------------------------------------- part A

def module_aliases(tree, src):
    np_name = rnd_name = None
    for s in tree.body:
        if isinstance(s, ast.Import):
            for a in s.names:
                if a.name == "numpy":
                    np_name = a.asname or "numpy"
                if a.name == "numpy.random" and a.asname:
                    rnd_name = a.asname
        elif isinstance(s, ast.ImportFrom):
            for a in s.names:
                if s.module == "numpy" and a.name == "random":
                    rnd_name = a.asname or "random"
        elif isinstance(s, ast.FunctionDef) and s.name == "poll_mads_2n":
            pass
        elif isinstance(s, ast.Expr) and isinstance(s.value, ast.Constant) and isinstance(s.value.value, str):
            pass
        else:
            fail(s, "module-level statement other than an import / the function", src)
    bound = [a.asname or a.name.split(".")[0] for s in tree.body if isinstance(s, (ast.Import, ast.ImportFrom)) for a in s.names]
    for nm in (np_name, rnd_name):
        if nm is None or bound.count(nm) != 1:
            fail(tree.body[0], f"numpy / numpy.random are not imported exactly once under one name each ({np_name}, {rnd_name})", src)
    return np_name, rnd_name


def body_wo_doc(fn):
    b = list(fn.body)
    if b and isinstance(b[0], ast.Expr) and isinstance(b[0].value, ast.Constant) and isinstance(b[0].value.value, str):
        b = b[1:]
    return b


def subst(ir, m):
    if ir[0] == "var" and ir[1] in m:
        return m[ir[1]]
    if ir[0] in ("num", "var", "EEye", "EZeros"):
        return ir
    if ir[0] == "EIfFlag":
        return (ir[0], ir[1]) + tuple(subst(x, m) for x in ir[2:])
    return (ir[0],) + tuple(subst(x, m) for x in ir[1:])


def parse_gen():
    region("generator")
    text = (REPO / SRC_GEN).read_text()
    tree = parse_quiet(text)
    np_name, rnd_name = module_aliases(tree, SRC_GEN)
    fns = [n for n in ast.walk(tree) if isinstance(n, (ast.FunctionDef, ast.AsyncFunctionDef, ast.Lambda, ast.ClassDef))]
    if len(fns) != 1 or not isinstance(fns[0], ast.FunctionDef) or fns[0].name != "poll_mads_2n" or fns[0] not in tree.body:
        fail(tree, "poll_mads_2n is not the single definition of the module", SRC_GEN)
    fn = fns[0]
    a = fn.args
    if a.vararg or a.kwarg or a.kwonlyargs or a.posonlyargs or a.defaults or len(a.args) != 4 or fn.decorator_list:
        fail(fn, "signature is not four plain positional parameters", SRC_GEN)
    pnames = [x.arg for x in a.args]
    if len(set(pnames)) != 4 or np_name in pnames or rnd_name in pnames:
        fail(fn, "parameter names clash", SRC_GEN)
    tr = Tr(text, np_name, rnd_name, [pnames[0]], SRC_GEN)
    for p, c, k in zip(pnames, PARAMS, ["S", "V", "S", "S"]):
        tr.env[p] = (c, k)
    body = body_wo_doc(fn)
    prog, ret = [], None

    def target(s):
        if not (isinstance(s, ast.Assign) and len(s.targets) == 1 and isinstance(s.targets[0], ast.Name)):
            fail(s, "statement is not `<name> = <expression>`", SRC_GEN)
        nm = s.targets[0].id
        if nm in pnames or nm in (np_name, rnd_name):
            fail(s, f"assignment to the parameter / module name {nm}", SRC_GEN)
        return nm

    for i, s in enumerate(body):
        if ret is not None:
            fail(s, "statement after return", SRC_GEN)
        if isinstance(s, ast.Return):
            if s.value is None:
                fail(s, "bare return", SRC_GEN)
            ret, k = tr.ex(s.value)
            if k != "M2":
                fail(s, f"the returned array has shape kind {k}, expected the 2D x D stack", SRC_GEN)
        elif isinstance(s, ast.If):
            t = s.test
            if not (isinstance(t, ast.Compare) and len(t.ops) == 1 and isinstance(t.ops[0], (ast.Gt, ast.Lt))):
                fail(t, "if-test is not a single < or > comparison", SRC_GEN)
            (l, kl), (r, kr) = tr.ex(t.left), tr.ex(t.comparators[0])
            if kl != "S" or kr != "S":
                fail(t, "if-test compares non-scalars", SRC_GEN)
            c1, c2 = (l, r) if isinstance(t.ops[0], ast.Lt) else (r, l)
            names = {target(x) for x in s.body + s.orelse}
            if len(names) != 1:
                fail(s, f"the arms of the if assign {sorted(names)} (exactly one name expected)", SRC_GEN)
            nm = names.pop()
            saved_env = dict(tr.env)
            arms = []
            for arm in (s.body, s.orelse):
                tr.env = dict(saved_env)
                cur = None
                for x in arm:
                    e, k = tr.ex(x.value)
                    if cur is not None:
                        e = subst(e, {"l:" + nm + "'": cur[0]})
                    cur = (e, k)
                    tr.env[nm] = ("l:" + nm + "'", k)       # arm-local version, substituted away
                if cur is None:
                    if nm not in saved_env:
                        fail(s, f"{nm} is assigned in one arm only and has no earlier value", SRC_GEN)
                    cur = (("var", saved_env[nm][0]), saved_env[nm][1])
                arms.append(cur)
            tr.env = saved_env
            (ea, ka), (eb, kb) = arms
            kind = ka if ka == kb else ("VM" if {ka, kb} == {"V", "M"} else None)
            if kind is None:
                fail(s, f"the arms give shapes {ka} and {kb}", SRC_GEN)
            prog.append(("l:" + nm, ("EIfLt", c1, c2, ea, eb)))
            tr.env[nm] = ("l:" + nm, kind)
        else:
            nm = target(s)
            e, k = tr.ex(s.value)
            prog.append(("l:" + nm, e))
            tr.env[nm] = ("l:" + nm, k)
    if ret is None:
        fail(fn, "no return", SRC_GEN)
    for what in ("entry draw randint(.., size=(dim, dim))", "sign draw randint(.., dim)", "rnd.permutation"):
        if not tr.once.get(what):
            fail(fn, f"no {what}", SRC_GEN)
    return dict(body=prog, ret=ret)


# ----------------------------------------------------------------------------- part B

def imported_as(tree, module_suffix, name):
    out = []
    for s in tree.body:
        if isinstance(s, ast.ImportFrom) and s.module and (s.module == module_suffix or s.module.endswith("." + module_suffix.split(".")[-1]) or s.module == module_suffix.split(".")[0]):
            pass
        if isinstance(s, ast.ImportFrom):
            for a in s.names:
                if a.name == name:
                    out.append(a.asname or a.name)
    return out


def same(node, text):
    return ast.dump(node) == ast.dump(ast.parse(text, mode="eval").body)


def proj_default():
    text = (REPO / SRC_CC).read_text()
    fns = [n for n in parse_quiet(text).body if isinstance(n, ast.FunctionDef) and n.name == "contraints_check"]
    if len(fns) != 1:
        fail(text[:40], "contraints_check not found exactly once", SRC_CC)
    a = fns[0].args
    names = [x.arg for x in a.args]
    if names != ["U", "lb", "ub", "tol_mesh", "function_logger", "proj", "non_box_cons"] or a.vararg or a.kwarg or a.kwonlyargs:
        fail(fns[0], f"signature of contraints_check is {names}", SRC_CC)
    d = dict(zip(names[len(names) - len(a.defaults):], a.defaults))
    v = d.get("proj")
    if not (isinstance(v, ast.Constant) and type(v.value) is bool):
        fail(fns[0], "default of proj is not a bool literal", SRC_CC)
    return v.value


def parse_quiet(text):
    import warnings
    with warnings.catch_warnings():
        warnings.simplefilter("ignore")
        return ast.parse(text)


def check_helpers():
    """the two helpers the refill block calls are READ AS: period_check = identity, force_to_grid(x, s) = s * np.round(x / s).
    Their bodies must literally be that (anything else raises: the reading would be unjustified)."""
    t = parse_quiet((REPO / SRC_PC).read_text())
    fns = [n for n in t.body if isinstance(n, ast.FunctionDef) and n.name == "period_check"]
    if len(fns) != 1:
        fail(t.body[0] if t.body else "?", "period_check not found exactly once", SRC_PC)
    b = body_wo_doc(fns[0])
    if not (len(b) == 1 and isinstance(b[0], ast.Return) and isinstance(b[0].value, ast.Name) and fns[0].args.args
            and b[0].value.id == fns[0].args.args[0].arg):
        fail(fns[0], "period_check is no longer `return <first argument>` (periodic variables are outside the model)", SRC_PC)
    t = parse_quiet((REPO / SRC_FG).read_text())
    fns = [n for n in t.body if isinstance(n, ast.FunctionDef) and n.name == "force_to_grid"]
    if len(fns) != 1:
        fail(t.body[0] if t.body else "?", "force_to_grid not found exactly once", SRC_FG)
    want = ast.parse("def force_to_grid(x, search_mesh_size, tol=None):\n    if tol is None:\n        tol = search_mesh_size\n    return tol * np.round(x / tol)\n").body[0]
    got = fns[0]
    if ast.dump(ast.Module(body=body_wo_doc(got), type_ignores=[])) != ast.dump(ast.Module(body=want.body, type_ignores=[])) \
            or ast.dump(got.args) != ast.dump(want.args):
        fail(got, "force_to_grid is no longer `tol = search_mesh_size if tol is None; return tol * np.round(x / tol)`", SRC_FG)


def index_off(n, tr, node):
    """<index> | <index> + k | <index> - k  -> (index name, k)"""
    if isinstance(n, ast.Name):
        return n.id, 0
    if isinstance(n, ast.BinOp) and isinstance(n.op, (ast.Add, ast.Sub)) and isinstance(n.left, ast.Name) and isinstance(n.right, ast.Constant) \
            and type(n.right.value) is int:
        return n.left.id, n.right.value if isinstance(n.op, ast.Add) else -n.right.value
    fail(node, "row index is not <name> or <name> +- <int literal>", SRC_BADS)


def parse_cand():
    region("candidates")
    check_helpers()
    text = (REPO / SRC_BADS).read_text()
    tree = parse_quiet(text)
    calls = {}
    for nm in ("poll_mads_2n", "force_to_grid", "contraints_check", "period_check"):
        al = imported_as(tree, "", nm)
        if len(al) != 1:
            fail(tree.body[0], f"{nm} is not imported exactly once at module level", SRC_BADS)
        calls[nm] = al[0]
    for s in tree.body:          # the imported names must not be rebound at module level
        if isinstance(s, (ast.Assign, ast.AugAssign, ast.AnnAssign, ast.FunctionDef)) and any(
                isinstance(n, ast.Name) and n.id in calls.values() and isinstance(n.ctx, ast.Store) for n in ast.walk(s)):
            fail(s, "an imported helper is rebound at module level", SRC_BADS)
        if isinstance(s, ast.FunctionDef) and s.name in calls.values():
            fail(s, "an imported helper is redefined at module level", SRC_BADS)
    np_names = [a.asname or a.name for s in tree.body if isinstance(s, ast.Import) for a in s.names if a.name == "numpy"]
    if len(np_names) != 1:
        fail(tree.body[0], "numpy is not imported exactly once", SRC_BADS)
    np_name = np_names[0]
    cls = [c for c in tree.body if isinstance(c, ast.ClassDef) and c.name == "BADS"]
    if len(cls) != 1:
        fail(tree.body[0], "class BADS not found exactly once", SRC_BADS)
    ms = [m for m in cls[0].body if isinstance(m, ast.FunctionDef) and m.name == "_poll_step_"]
    if len(ms) != 1:
        fail(cls[0], "_poll_step_ not found exactly once", SRC_BADS)
    fn = ms[0]
    margs = [a.arg for a in fn.args.args]
    if len(margs) != 2 or margs[0] != "self" or fn.args.vararg or fn.args.kwarg or fn.args.kwonlyargs or fn.args.defaults:
        fail(fn, f"signature of _poll_step_ is {margs}", SRC_BADS)
    gp_name = margs[1]
    body = body_wo_doc(fn)
    for n in ast.walk(fn):
        if isinstance(n, ast.Name) and isinstance(n.ctx, ast.Store) and n.id in list(calls.values()) + [np_name, "self"]:
            fail(n, f"{n.id} is rebound inside _poll_step_", SRC_BADS)
        if isinstance(n, (ast.FunctionDef, ast.Lambda, ast.ClassDef, ast.Global, ast.Nonlocal)) and n is not fn:
            fail(n, "nested definition / global in _poll_step_", SRC_BADS)
    whiles = [s for s in body if isinstance(s, ast.While)]
    if len(whiles) != 1 or len([n for n in ast.walk(fn) if isinstance(n, (ast.While, ast.For))]) != 1:
        fail(fn, "_poll_step_ does not contain exactly one loop at statement level", SRC_BADS)
    w = whiles[0]
    W = w.body
    pcalls = [n for n in ast.walk(fn) if isinstance(n, ast.Call) and isinstance(n.func, ast.Name) and n.func.id == calls["poll_mads_2n"]]
    if len(pcalls) != 1:
        fail(fn, f"{len(pcalls)} calls of poll_mads_2n in _poll_step_", SRC_BADS)
    blocks = [s for s in W if isinstance(s, ast.If) and any(n is pcalls[0] for n in ast.walk(s))]
    if len(blocks) != 1 or any(n is pcalls[0] for n in ast.walk(blocks[0].test)) or any(n is pcalls[0] for x in blocks[0].orelse for n in ast.walk(x)):
        fail(w, "the call of poll_mads_2n is not inside the body of one `if` at the top of the poll loop", SRC_BADS)
    blk = blocks[0]
    if blk.orelse:
        fail(blk, "the refill block has an else arm", SRC_BADS)
    i_blk = W.index(blk)
    refill_test = ast.unparse(blk.test)

    tr = Tr(text, np_name, None, [], SRC_BADS)
    tr.places, tr.calls, tr.gp_name = dict(PLACES), calls, gp_name
    prog = []
    call_ir = cand_arg = None
    proj = None
    filtered = None          # python name of the filtered candidate array
    basis = None             # python name of B_new
    setname = None
    merged = []
    for s in blk.body:
        # the call of contraints_check
        if isinstance(s, ast.Assign) and len(s.targets) == 1 and isinstance(s.targets[0], ast.Name) and isinstance(s.value, ast.Call) \
                and isinstance(s.value.func, ast.Name) and s.value.func.id == calls["contraints_check"]:
            if cand_arg is not None:
                fail(s, "second call of contraints_check in the refill block", SRC_BADS)
            if call_ir is None:
                fail(s, "contraints_check before the generator call", SRC_BADS)
            args = tr.kwargs(s.value, ["U", "lb", "ub", "tol_mesh", "function_logger", "proj", "non_box_cons"])
            for a, want in zip(args[1:5] + [args[6]], ["self.lower_bounds", "self.upper_bounds", "self.optim_state['tol_mesh']", "self.function_logger",
                                                       "self.non_box_cons"]):
                if a is None or not same(a, want):
                    fail(s, f"argument of contraints_check is not {want}", SRC_BADS)
            cand_arg, k = tr.ex(args[0])
            if k != "M2":
                fail(s, f"the array handed to contraints_check has shape kind {k}", SRC_BADS)
            if args[5] is None:
                proj = proj_default()
            elif isinstance(args[5], ast.Constant) and type(args[5].value) is bool:
                proj = args[5].value
            else:
                fail(s, "proj argument of contraints_check is not a bool literal", SRC_BADS)
            filtered = s.targets[0].id
            tr.env.pop(filtered, None)          # from here on the local holds the FILTERED array (an oracle): not an expression any more
            continue
        if cand_arg is not None:
            # after the filter: only the two merges
            ok = False
            if isinstance(s, ast.If) and isinstance(s.test, ast.Compare) and len(s.test.ops) == 1 and isinstance(s.test.ops[0], ast.Is) \
                    and isinstance(s.test.left, ast.Name) and isinstance(s.test.comparators[0], ast.Constant) and s.test.comparators[0].value is None \
                    and len(s.body) == 1 and len(s.orelse) == 1:
                x = s.test.left.id
                a, b = s.body[0], s.orelse[0]
                if all(isinstance(y, ast.Assign) and len(y.targets) == 1 and isinstance(y.targets[0], ast.Name) and y.targets[0].id == x for y in (a, b)):
                    for src_local in (filtered, basis):
                        if same(a.value, f"{src_local}.copy()") and isinstance(b.value, ast.Call) and tr.is_mod(b.value.func, np_name, "vstack"):
                            ok = True
                            merged.append((x, src_local))
            if not ok:
                fail(s, "statement after contraints_check is not `if <set> is None: <set> = <new>.copy() else: <set> = np.vstack(..)`", SRC_BADS)
            continue
        if isinstance(s, ast.Expr) and isinstance(s.value, ast.Call) and isinstance(s.value.func, ast.Name) and s.value.func.id == calls["period_check"]:
            c = s.value
            if c.keywords or len(c.args) != 4 or not isinstance(c.args[0], ast.Name) or c.args[0].id not in tr.env or \
                    not (same(c.args[1], "self.lower_bounds") and same(c.args[2], "self.upper_bounds") and same(c.args[3], "self.optim_state['periodic_vars']")):
                fail(s, "period_check call not in the known shape", SRC_BADS)
            continue
        if isinstance(s, ast.If):
            p = tr.place_of(s.test)
            if p is None or not p.startswith("options[") or s.orelse or len(s.body) != 1:
                fail(s, "if in the refill block is not `if self.options[<flag>]: <x> = ...`", SRC_BADS)
            if p != "options[force_poll_mesh]":
                fail(s, f"unknown flag {p}", SRC_BADS)
            x = s.body[0]
            if not (isinstance(x, ast.Assign) and len(x.targets) == 1 and isinstance(x.targets[0], ast.Name) and x.targets[0].id in tr.env):
                fail(x, "flagged statement is not an assignment to an earlier local", SRC_BADS)
            nm = x.targets[0].id
            e, k = tr.ex(x.value)
            if k != tr.env[nm][1]:
                fail(x, "flagged assignment changes the shape", SRC_BADS)
            prog.append(("l:" + nm, ("EIfFlag", "force_poll_mesh", e, ("var", "l:" + nm))))
            continue
        if isinstance(s, ast.Assign) and len(s.targets) == 1 and isinstance(s.targets[0], ast.Name):
            nm = s.targets[0].id
            if nm in list(calls.values()) + [gp_name]:
                fail(s, f"assignment to {nm}", SRC_BADS)
            e, k = tr.ex(s.value)
            if e[0] == "ECallPoll":
                call_ir, basis = e, nm
            prog.append(("l:" + nm, e))
            tr.env[nm] = ("l:" + nm, k)
            continue
        fail(s, "statement of the refill block not in the grammar", SRC_BADS)
    if call_ir is None or cand_arg is None:
        fail(blk, "the refill block lacks the generator call or the call of contraints_check", SRC_BADS)
    if sorted(m[1] for m in merged) != sorted([filtered, basis]) or len(merged) != 2:
        fail(blk, f"the refill block does not merge the filtered candidates and the basis once each: {merged}", SRC_BADS)
    setname = [x for x, y in merged if y == filtered][0]
    basis_set = [x for x, y in merged if y == basis][0]

    # ---- the loop: read, evaluate, delete
    region("loop")
    reads = [(i, s) for i, s in enumerate(W) if isinstance(s, ast.Assign) and isinstance(s.value, ast.Subscript)
             and isinstance(s.value.value, ast.Name) and s.value.value.id == setname]
    if len(reads) != 1 or len(reads[0][1].targets) != 1 or not isinstance(reads[0][1].targets[0], ast.Name):
        fail(w, f"expected exactly one statement `<p> = {setname}[<index>]` at the top level of the poll loop", SRC_BADS)
    i_read, rd = reads[0]
    point = rd.targets[0].id
    idx_e, off_e = index_off(rd.value.slice, tr, rd)
    dels = [(i, s) for i, s in enumerate(W) if isinstance(s, ast.Assign) and isinstance(s.value, ast.Call) and tr.is_mod(s.value.func, np_name, "delete")
            and any(isinstance(n, ast.Name) and n.id == setname for n in ast.walk(s))]
    if len(dels) != 1:
        fail(w, f"expected exactly one np.delete on {setname} at the top level of the poll loop", SRC_BADS)
    i_del, dl = dels[0]
    if not (len(dl.targets) == 1 and isinstance(dl.targets[0], ast.Name) and dl.targets[0].id == setname):
        fail(dl, f"the result of np.delete is not stored back to {setname}", SRC_BADS)
    arr_a, obj_a, axis_a = tr.kwargs(dl.value, ["arr", "obj", "axis"])
    if not (isinstance(arr_a, ast.Name) and arr_a.id == setname) or obj_a is None:
        fail(dl, "np.delete does not delete from the candidate set", SRC_BADS)
    idx_d, off_d = index_off(obj_a, tr, dl)
    axis0 = isinstance(axis_a, ast.Constant) and type(axis_a.value) is int and axis_a.value == 0
    if axis_a is not None and not isinstance(axis_a, ast.Constant):
        fail(dl, "axis of np.delete is not a literal", SRC_BADS)
    if idx_e != idx_d:
        fail(dl, f"evaluated row index {idx_e} and deleted row index {idx_d} are different variables", SRC_BADS)
    evs = [(i, s) for i, s in enumerate(W) if any(isinstance(n, ast.Call) and same(n.func, "self.function_logger") for n in ast.walk(s))]
    if len(evs) != 1:
        fail(w, "expected exactly one statement calling self.function_logger at the top level of the poll loop", SRC_BADS)
    i_ev, ev = evs[0]
    ecall = [n for n in ast.walk(ev) if isinstance(n, ast.Call) and same(n.func, "self.function_logger")]
    if len(ecall) != 1 or ecall[0].keywords or len(ecall[0].args) != 1 or not (isinstance(ecall[0].args[0], ast.Name) and ecall[0].args[0].id == point):
        fail(ev, f"the evaluation is not self.function_logger({point})", SRC_BADS)
    if not (i_blk < i_read < i_ev) or not (i_blk < i_del):
        fail(w, "refill / read / evaluate are not in this order", SRC_BADS)
    if i_read < i_del < i_ev:
        pass        # the point was read before the delete: fine (the value is a row copy / view of the OLD array, np.delete returns a new array)
    # other writers of the candidate set, the point, the index between read and delete
    for n in ast.walk(fn):
        tg = []
        if isinstance(n, ast.Assign):
            tg = n.targets
        elif isinstance(n, (ast.AugAssign, ast.AnnAssign)):
            tg = [n.target]
        elif isinstance(n, ast.Delete):
            tg = n.targets
        elif isinstance(n, (ast.For, ast.comprehension)):
            tg = [n.target]
        elif isinstance(n, ast.NamedExpr):
            tg = [n.target]
        elif isinstance(n, ast.withitem) and n.optional_vars is not None:
            tg = [n.optional_vars]
        for t in tg:
            for m in ast.walk(t):
                if isinstance(m, ast.Name) and m.id in (setname, basis_set) and (isinstance(m.ctx, (ast.Store, ast.Del)) or m is not t):
                    inside_blk = any(m is z for z in ast.walk(blk))
                    init = n in body and isinstance(n, ast.Assign) and isinstance(n.value, ast.Constant) and n.value.value is None \
                        and body.index(n) < body.index(w)
                    if not (inside_blk or init or n is dl):
                        fail(n, f"another writer of {m.id} in _poll_step_", SRC_BADS)
    lo, hi = min(i_read, i_del), max(i_read, i_del, i_ev)
    for s in W[lo:hi + 1]:
        if s in (rd, dl):
            continue
        for n in ast.walk(s):
            if isinstance(n, ast.Name) and isinstance(n.ctx, ast.Store) and n.id in (point, idx_e):
                fail(s, f"{n.id} is written between the read and the delete / evaluation", SRC_BADS)
    # in-place mutation of the candidate set through a method / function call is outside the grammar: any other mention must be a plain read
    return dict(body=prog, call=call_ir, arg=cand_arg, proj=bool(proj), eval_first=i_read < i_del, eval_off=off_e, del_off=off_d, axis0=bool(axis0),
                refill_test=refill_test)


# ----------------------------------------------------------------------------- emit

def cbool(b):
    return "true" if b else "false"


def cprog(p):
    return "[" + ";\n     ".join(f'("{x}", {coq(e)})' for x, e in p) + "]"


def definitions(g, c):
    """name -> Coq text (the unit of comparison with the reference)"""
    return {
        "src_gen.g_body": cprog(g["body"]),
        "src_gen.g_ret": coq(g["ret"]),
        "src_cand.c_body": cprog(c["body"]),
        "src_cand.c_call": coq(c["call"]),
        "src_cand.c_arg": coq(c["arg"]),
        "src_cand.c_proj": cbool(c["proj"]),
        "src_cand.c_eval_first": cbool(c["eval_first"]),
        "src_cand.c_eval_off": f"({c['eval_off']})",
        "src_cand.c_del_off": f"({c['del_off']})",
        "src_cand.c_del_axis0": cbool(c["axis0"]),
        "src_refill_test": '"' + c["refill_test"].replace('"', "'") + '"',
    }


def render(d):
    L = ["(* GENERATED by translate/poll.py from " + SRC_GEN + " and " + SRC_BADS + " (BADS._poll_step_) on every ./check run",
         "   - do not edit, never committed.  Meaning: coq/Model/PollSrc.v.  Locals are prefixed l:, parameters of poll_mads_2n are bound by",
         "   position to dim_x / poll_scale / search_mesh_size / mesh_size, the other names are places of the optimiser's state. *)",
         "From Coq Require Import ZArith QArith List String.", "From PV Require Import Model.PollSrc.", "Import ListNotations.",
         "Open Scope string_scope.", "",
         "Definition src_gen : gen_prog :=", "  {| g_body :=\n    " + d["src_gen.g_body"] + ";", "     g_ret := " + d["src_gen.g_ret"] + " |}.", "",
         "Definition src_cand : cand_prog :=", "  {| c_body :=\n    " + d["src_cand.c_body"] + ";",
         "     c_call := " + d["src_cand.c_call"] + ";", "     c_arg := " + d["src_cand.c_arg"] + ";", "     c_proj := " + d["src_cand.c_proj"] + ";",
         "     c_eval_first := " + d["src_cand.c_eval_first"] + ";", "     c_eval_off := " + d["src_cand.c_eval_off"] + "%Z;",
         "     c_del_off := " + d["src_cand.c_del_off"] + "%Z;", "     c_del_axis0 := " + d["src_cand.c_del_axis0"] + " |}.", "",
         "(* the test that guards the refill block, as text (a pin: the block runs once per poll step, on the first pass) *)",
         "Definition src_refill_test : string := " + d["src_refill_test"] + ".", ""]
    return "\n".join(L)


def diff_reference(d):
    """names of the definitions whose text differs from the reference (None when there is no reference)"""
    try:
        ref = json.loads(REF.read_text())
    except Exception:
        return None
    return [k for k in d if ref.get(k) != d[k]]


def poison(ex):
    OUT.parent.mkdir(parents=True, exist_ok=True)
    OUT.write_text("(* GENERATED by translate/poll.py: the source is NOT translatable, no definition emitted.\n   "
                   + repr(ex).replace("*)", "* )").replace("(*", "( *") + " *)\n")


def emit():
    try:
        g = parse_gen()
        c = parse_cand()
        d = definitions(g, c)
        text = render(d)
    except Exception as ex:          # fail closed on ANYTHING (also a crash of the translator itself)
        poison(ex)
        LAST.update(region=getattr(ex, "region", _REGION[0]), changed=None, error=repr(ex))
        if isinstance(ex, Untranslatable):
            raise
        raise Untranslatable(f"translator crashed: {ex!r}")
    OUT.parent.mkdir(parents=True, exist_ok=True)
    if not OUT.exists() or OUT.read_text() != text:
        OUT.write_text(text)
    ch = diff_reference(d)
    LAST.update(region=None, changed=ch, error=None)
    return dict(emitted=str(OUT), changed_vs_reference=ch)


def aim():
    """where the search should look after emit(): 'generator' / 'candidates' / 'loop' (from the failing region or the changed definitions);
    [] = nothing known.  Only ever used to order / focus the search."""
    if not LAST:
        return []
    if LAST.get("error"):
        return [LAST.get("region") or "?"]
    out = []
    for k in LAST.get("changed") or []:
        r = "generator" if k.startswith("src_gen") else ("loop" if k in ("src_cand.c_eval_first", "src_cand.c_eval_off", "src_cand.c_del_off",
                                                                          "src_cand.c_del_axis0", "src_refill_test") else "candidates")
        if r not in out:
            out.append(r)
    return out


if __name__ == "__main__":
    if "--write-reference" in sys.argv:
        d = definitions(parse_gen(), parse_cand())
        REF.write_text(json.dumps(d, indent=1, sort_keys=True) + "\n")
        print("reference written:", REF)
    else:
        print(emit())
        print(OUT.read_text())
