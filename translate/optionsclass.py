"""Translator for C20 (class logic): pybads/bads/options.py (class Options) + the option statements of BADS.__init__
   ->  coq/gen/Src_optionsclass.v   (programs in the language of coq/Model/OptionsSrc.v).   FAIL CLOSED.

What is located (structurally, never by line number): module pybads/bads/options.py, ClassDef `Options`, its methods by
name; ClassDef `BADS` / FunctionDef `__init__` of pybads/bads/bads.py.  Parameters are identified by POSITION, locals by
an environment, so a renamed local / parameter does not change the output.

Whitelist (everything else raises Untranslatable; emit() then writes a file holding no definition):

  module options.py   docstring, `from __future__ import annotations`, `import configparser`,
                      `from collections.abc import MutableMapping`, `import numpy as np`, class Options,
                      def _read_config_file (pinned as canonical text: src_read_config — the .ini translator translate/options.py
                      copies its rules).  Any other module-level statement (a module-level `D = ...`, a cache) raises.
  class Options       bases exactly (MutableMapping, dict), no decorator / metaclass; methods: __init__, load_options_file,
                      validate_option_names (translated), __setitem__/__getitem__/__iter__/__len__/__delitem__ (must be the
                      pass-through to dict, __iter__ sorted), eval / __str__ / init_from_existing_options (must not write:
                      no store into self / attributes / globals, no mutator call, no exec).  An extra method
                      (update, get, keys, __contains__, __missing__ ...) or a class-level assignment raises.
  __init__            super().__init__() -> INew ; self.descriptions = dict() -> IDescrInit ; self["useroptions"] = set()
                      -> IProtectNone ; self.load_options_file(<path>, <evaluation_parameters>) -> ILoadDefault ;
                      if <test over user_options>: ... (nested; no else) ; raise E(...) -> IRaise "E" ;
                      self.update(<user_options>) -> IUpdateUser ; self["useroptions"].update(<user_options>.keys()) -> IProtectUser
  load_options_file   for k, v in <evaluation_parameters>.items(): [g = globals()] exec(f"{k} = {v}", globals()|g) -> LBind ;
                      L = _read_config_file(<options_path>) ; for (k, v, d) in L: [if <test>:] body -> LFor test body
                      body: self[k] = eval(v) (ONE argument: evaluated in the method's frame) -> BStoreEval ;
                            self.descriptions[k] = d -> BDescr
  validate_option_names  N = set() ; for p in <options_paths>: N.update(_read_config_file(p)[:, 0].flatten()) -> VCollect ;
                      for k in self.keys() | self: if <test>: raise E(...) -> VFor test "E"
  tests               and / or / not ; k in|not in self.get("useroptions") | self["useroptions"] ; k ==|!= "const" (either
                      operand order) ; k in|not in N ; U is|is not None ; "const" in|not in U
  BADS.__init__       X = pybads_path + "/option_configs/<basic|advanced file>" ; self.options = Options(X,
                      evaluation_parameters={"D": self.D}, user_options=<the `options` parameter, never re-assigned>) -> KInit ;
                      self.options.load_options_file(X, evaluation_parameters={"D": self.D}) -> KLoad ;
                      self.options.validate_option_names([X, ..]) -> KValidate ; top level of the body only, self.D assigned
                      before and not between, nothing but path assignments between the first and the last of them.
  package census      no other call of Options( / load_options_file / validate_option_names / init_from_existing_options, no other
                      assignment to an `.options` attribute, no update / pop / clear / setdefault / del on an options object
                      anywhere in pybads/ (outside pybads/testing): a second loader / writer elsewhere raises (subscript stores
                      are the business of static:option-write-sites).

Nothing is normalised except: parameter / local names, the operand order of == / !=, `a != b` as not (a == b),
`x not in y` as not (x in y).  `A and B` vs `not (not A or not B)` etc. are NOT normalised here: the tests are emitted as
written and Proofs/OptionsSourceProofs.v proves them equal to the model's for all keys / sets.
"""
from __future__ import annotations

import ast
import copy
import hashlib
import json
import os
from pathlib import Path

from translate import options as TO

REPO = Path(os.environ.get("VERIF_REPO", "/repo"))
VERIF = Path(__file__).resolve().parent.parent
OUT = VERIF / "coq" / "gen" / "Src_optionsclass.v"
REFERENCE = Path(__file__).with_name("optionsclass_reference.json")
SRC_OPT = "pybads/bads/options.py"
SRC_BADS = "pybads/bads/bads.py"
RESERVED = "useroptions"

MUTATORS = {"update", "pop", "popitem", "clear", "setdefault", "__setitem__", "__delitem__", "load_options_file", "add", "discard",
            "remove", "__setattr__", "__init__", "append", "extend", "insert"}
PASS_THROUGH = {
    "__setitem__": "def f(self, key, val):\n    dict.__setitem__(self, key, val)",
    "__getitem__": "def f(self, key):\n    return dict.__getitem__(self, key)",
    "__iter__": "def f(self):\n    yield from sorted(dict.__iter__(self))",
    "__len__": "def f(self):\n    return dict.__len__(self)",
    "__delitem__": "def f(self, key):\n    return dict.__delitem__(self, key)",
}
READ_ONLY = {"eval", "__str__", "init_from_existing_options"}
TRANSLATED = {"__init__", "load_options_file", "validate_option_names"}


class Untranslatable(Exception):
    def __init__(self, msg, where=None):
        super().__init__(msg)
        self.where = where          # name of the method / construct at which translation stopped (aims the search)


def bad(where, why, node=None):
    line = f" (line {node.lineno})" if node is not None and hasattr(node, "lineno") else ""
    raise Untranslatable(f"{where}{line}: {why}", where)


# --------------------------------------------------------------------------- helpers
def _parse(text):
    import warnings
    with warnings.catch_warnings():
        warnings.simplefilter("ignore")          # invalid escape sequences in docstrings of the package
        return ast.parse(text)


def _body(fn):
    b = list(fn.body)
    if b and isinstance(b[0], ast.Expr) and isinstance(b[0].value, ast.Constant) and isinstance(b[0].value.value, str):
        b = b[1:]
    return b


def _params(fn, where):
    a = fn.args
    if a.vararg or a.kwarg or a.kwonlyargs or a.posonlyargs:
        bad(where, "signature with * / ** / keyword-only / positional-only parameters")
    return [x.arg for x in a.args]


class _Rename(ast.NodeTransformer):
    def __init__(self, m):
        self.m = m

    def visit_Name(self, n):
        return ast.copy_location(ast.Name(id=self.m.get(n.id, n.id), ctx=n.ctx), n)

    def visit_arg(self, n):
        return ast.copy_location(ast.arg(arg=self.m.get(n.arg, n.arg), annotation=None), n)


def _canon(fn):
    """ast dump of a function with parameters renamed positionally, annotations / docstring dropped."""
    fn = copy.deepcopy(fn)
    names = [x.arg for x in fn.args.args]
    fn = _Rename({n: f"_p{i}" for i, n in enumerate(names)}).visit(fn)
    fn.name = "f"
    fn.returns = None
    fn.body = _body(fn) or [ast.Pass()]
    fn.decorator_list = []
    return ast.dump(fn, annotate_fields=False, include_attributes=False)


def _is_name(n, name):
    return isinstance(n, ast.Name) and n.id == name


def _is_const(n, v=None):
    return isinstance(n, ast.Constant) and (v is None or (type(n.value) is type(v) and n.value == v))


def _is_call(n, fname=None, nargs=None):
    if not (isinstance(n, ast.Call) and not n.keywords):
        return False
    if fname is not None and not _is_name(n.func, fname):
        return False
    if nargs is not None and len(n.args) != nargs:
        return False
    return not any(isinstance(a, ast.Starred) for a in n.args)


def _is_method(n, obj_pred, attr, nargs=None):
    """n is  <obj>.attr(args)  without keywords."""
    return (isinstance(n, ast.Call) and not n.keywords and isinstance(n.func, ast.Attribute) and n.func.attr == attr
            and obj_pred(n.func.value) and (nargs is None or len(n.args) == nargs)
            and not any(isinstance(a, ast.Starred) for a in n.args))


def _self_reserved(n, selfname):
    """self.get("useroptions")  or  self["useroptions"]"""
    if _is_method(n, lambda o: _is_name(o, selfname), "get", 1) and _is_const(n.args[0], RESERVED):
        return True
    return isinstance(n, ast.Subscript) and _is_name(n.value, selfname) and _is_const(n.slice, RESERVED)


# --------------------------------------------------------------------------- tests
def tr_cond(t, ctx, where):
    """ctx: dict(key=<loop var or None>, self=<name>, names=<set var or None>, user=<param or None>)  -> cond tree (JSON-able)"""
    if isinstance(t, ast.BoolOp):
        parts = [tr_cond(v, ctx, where) for v in t.values]
        op = "CAnd" if isinstance(t.op, ast.And) else "COr"
        out = parts[0]
        for p in parts[1:]:
            out = [op, out, p]
        return out
    if isinstance(t, ast.UnaryOp) and isinstance(t.op, ast.Not):
        return ["CNot", tr_cond(t.operand, ctx, where)]
    if isinstance(t, ast.Compare) and len(t.ops) == 1:
        op, a, b = t.ops[0], t.left, t.comparators[0]
        neg = isinstance(op, (ast.NotIn, ast.NotEq, ast.IsNot))
        wrap = (lambda c: ["CNot", c]) if neg else (lambda c: c)
        key, user, names = ctx.get("key"), ctx.get("user"), ctx.get("names")
        if isinstance(op, (ast.In, ast.NotIn)):
            if key and _is_name(a, key) and _self_reserved(b, ctx["self"]):
                return wrap(["CKeyProtected"])
            if key and names and _is_name(a, key) and _is_name(b, names):
                return wrap(["CKeyInFiles"])
            if user and _is_const(a) and isinstance(a.value, str) and _is_name(b, user):
                return wrap(["CUserHas", a.value])
        if isinstance(op, (ast.Eq, ast.NotEq)) and key:
            if _is_name(a, key) and _is_const(b) and isinstance(b.value, str):
                return wrap(["CKeyIs", b.value])
            if _is_name(b, key) and _is_const(a) and isinstance(a.value, str):
                return wrap(["CKeyIs", a.value])
        if isinstance(op, (ast.Is, ast.IsNot)) and user and _is_name(a, user) and _is_const(b) and b.value is None:
            return ["CUserGiven"] if neg else ["CNot", ["CUserGiven"]]
    bad(where, "test outside the whitelist: " + ast.unparse(t), t)


def _atoms(c):
    if c[0] in ("CNot",):
        return _atoms(c[1])
    if c[0] in ("CAnd", "COr"):
        return _atoms(c[1]) | _atoms(c[2])
    return {c[0]}


def _raise_name(st, where):
    e = st.exc
    if st.cause is not None or e is None:
        bad(where, "raise ... from / bare raise", st)
    if isinstance(e, ast.Call) and isinstance(e.func, ast.Name):
        return e.func.id
    if isinstance(e, ast.Name):
        return e.id
    bad(where, "raise of something that is not a named exception class", st)


# --------------------------------------------------------------------------- the three methods
def tr_init(fn):
    where = "Options.__init__"
    ps = _params(fn, where)
    if len(ps) != 4:
        bad(where, f"expected (self, path, evaluation_parameters, user_options), got {ps}")
    s, path, ev, user = ps
    d = fn.args.defaults
    if len(d) != 2 or not all(_is_const(x) and x.value is None for x in d):
        bad(where, "defaults of evaluation_parameters / user_options are not (None, None)")
    out = []
    ctx = dict(key=None, self=s, user=user)

    def assigned_names(st):
        return {t.id for n in ast.walk(st) if isinstance(n, (ast.Assign, ast.AugAssign, ast.AnnAssign, ast.NamedExpr))
                for t in (n.targets if isinstance(n, ast.Assign) else [n.target]) if isinstance(t, ast.Name)}

    def walk(stmts, guard):
        for st in stmts:
            if assigned_names(st) & {s, path, ev, user}:
                bad(where, "a parameter is re-assigned", st)
            if isinstance(st, ast.If):
                if st.orelse:
                    bad(where, "if with an else branch", st)
                c = tr_cond(st.test, ctx, where)
                walk(st.body, c if guard == ["CTrue"] else ["CAnd", guard, c])
                continue
            if isinstance(st, ast.Raise):
                out.append((guard, ["IRaise", _raise_name(st, where)]))
                continue
            if isinstance(st, ast.Expr) and isinstance(st.value, ast.Call):
                c = st.value
                if _is_method(c, lambda o: _is_call(o, "super", 0), "__init__", 0):
                    out.append((guard, ["INew"]))
                    continue
                if isinstance(c.func, ast.Attribute) and _is_name(c.func.value, s) and c.func.attr == "load_options_file":
                    got = {}
                    for i, a in enumerate(c.args):
                        got[i] = a
                    for kw in c.keywords:
                        if kw.arg not in LOAD_PARAMS[0]:
                            bad(where, "load_options_file called with an unknown keyword", st)
                        got[LOAD_PARAMS[0].index(kw.arg)] = kw.value
                    if sorted(got) != [0, 1] or not _is_name(got[0], path) or not _is_name(got[1], ev):
                        bad(where, "load_options_file is not called with (default_options_path, evaluation_parameters)", st)
                    out.append((guard, ["ILoadDefault"]))
                    continue
                if _is_method(c, lambda o: _is_name(o, s), "update", 1) and _is_name(c.args[0], user):
                    out.append((guard, ["IUpdateUser"]))
                    continue
                if _is_method(c, lambda o: isinstance(o, ast.Subscript) and _is_name(o.value, s) and _is_const(o.slice, RESERVED), "update", 1) \
                        and _is_method(c.args[0], lambda o: _is_name(o, user), "keys", 0):
                    out.append((guard, ["IProtectUser"]))
                    continue
            if isinstance(st, ast.Assign) and len(st.targets) == 1:
                t, v = st.targets[0], st.value
                if isinstance(t, ast.Attribute) and _is_name(t.value, s) and t.attr == "descriptions" and \
                        (_is_call(v, "dict", 0) or (isinstance(v, ast.Dict) and not v.keys)):
                    out.append((guard, ["IDescrInit"]))
                    continue
                if isinstance(t, ast.Subscript) and _is_name(t.value, s) and _is_const(t.slice, RESERVED) and _is_call(v, "set", 0):
                    out.append((guard, ["IProtectNone"]))
                    continue
            bad(where, "statement outside the whitelist: " + ast.unparse(st)[:120], st)

    walk(_body(fn), ["CTrue"])
    for g, _ in out:
        if _atoms(g) - {"CTrue", "CUserGiven", "CUserHas"}:
            bad(where, "a test of __init__ reads something other than the caller's dict")
    return out


LOAD_PARAMS = [None]      # parameter names of load_options_file after `self` (set by translate())


def tr_load(fn):
    where = "Options.load_options_file"
    ps = _params(fn, where)
    if len(ps) != 3:
        bad(where, f"expected (self, options_path, evaluation_parameters), got {ps}")
    s, path, ev = ps
    out, listvars = [], set()
    for st in _body(fn):
        # --- for key, val in evaluation_parameters.items(): exec(f"{key} = {val}", globals())
        if isinstance(st, ast.For) and not st.orelse and _is_method(st.iter, lambda o: _is_name(o, ev), "items", 0):
            t = st.target
            if not (isinstance(t, ast.Tuple) and len(t.elts) == 2 and all(isinstance(e, ast.Name) for e in t.elts)):
                bad(where, "target of the evaluation_parameters loop", st)
            k, v = t.elts[0].id, t.elts[1].id
            gl, nexec = set(), 0
            for b in st.body:
                if isinstance(b, ast.Assign) and len(b.targets) == 1 and isinstance(b.targets[0], ast.Name) and _is_call(b.value, "globals", 0):
                    gl.add(b.targets[0].id)
                    continue
                if isinstance(b, ast.Expr) and _is_call(b.value, "exec", 2):
                    txt, ns = b.value.args
                    okns = _is_call(ns, "globals", 0) or (isinstance(ns, ast.Name) and ns.id in gl)
                    oktxt = (isinstance(txt, ast.JoinedStr) and len(txt.values) == 3
                             and isinstance(txt.values[0], ast.FormattedValue) and _is_name(txt.values[0].value, k)
                             and txt.values[0].conversion == -1 and txt.values[0].format_spec is None
                             and _is_const(txt.values[1], " = ")
                             and isinstance(txt.values[2], ast.FormattedValue) and _is_name(txt.values[2].value, v)
                             and txt.values[2].conversion == -1 and txt.values[2].format_spec is None)
                    if okns and oktxt:
                        nexec += 1
                        continue
                bad(where, "statement of the evaluation_parameters loop outside the whitelist: " + ast.unparse(b)[:120], b)
            if nexec != 1:
                bad(where, "the evaluation_parameters loop does not exec exactly once per parameter", st)
            out.append(["LBind"])
            continue
        # --- options_list = _read_config_file(options_path)
        if isinstance(st, ast.Assign) and len(st.targets) == 1 and isinstance(st.targets[0], ast.Name) \
                and _is_call(st.value, "_read_config_file", 1) and _is_name(st.value.args[0], path):
            if st.targets[0].id in (s, path, ev):
                bad(where, "a parameter is re-assigned", st)
            listvars.add(st.targets[0].id)
            continue
        # --- for (key, value, description) in options_list: if TEST: body
        if isinstance(st, ast.For) and not st.orelse and (
                (isinstance(st.iter, ast.Name) and st.iter.id in listvars)
                or (_is_call(st.iter, "_read_config_file", 1) and _is_name(st.iter.args[0], path))):
            t = st.target
            if not (isinstance(t, ast.Tuple) and len(t.elts) == 3 and all(isinstance(e, ast.Name) for e in t.elts)):
                bad(where, "target of the entries loop", st)
            k, v, dsc = (e.id for e in t.elts)
            if len({k, v, dsc, s}) != 4:
                bad(where, "loop variables of the entries loop are not distinct", st)
            body = st.body
            cond = ["CTrue"]
            if len(body) == 1 and isinstance(body[0], ast.If):
                if body[0].orelse:
                    bad(where, "if with an else branch in the entries loop", body[0])
                cond = tr_cond(body[0].test, dict(key=k, self=s), where)
                body = body[0].body
            bs = []
            for b in body:
                if isinstance(b, ast.Assign) and len(b.targets) == 1 and isinstance(b.targets[0], ast.Subscript):
                    tg = b.targets[0]
                    if _is_name(tg.value, s) and _is_name(tg.slice, k) and _is_call(b.value, "eval", 1) and _is_name(b.value.args[0], v):
                        bs.append("BStoreEval")
                        continue
                    if isinstance(tg.value, ast.Attribute) and _is_name(tg.value.value, s) and tg.value.attr == "descriptions" \
                            and _is_name(tg.slice, k) and _is_name(b.value, dsc):
                        bs.append("BDescr")
                        continue
                bad(where, "statement of the entries loop outside the whitelist: " + ast.unparse(b)[:120], b)
            out.append(["LFor", cond, bs])
            continue
        bad(where, "statement outside the whitelist: " + ast.unparse(st)[:120], st)
    return out


def tr_validate(fn):
    where = "Options.validate_option_names"
    ps = _params(fn, where)
    if len(ps) != 2:
        bad(where, f"expected (self, options_paths), got {ps}")
    s, paths = ps
    out, names = [], None
    for st in _body(fn):
        if isinstance(st, ast.Assign) and len(st.targets) == 1 and isinstance(st.targets[0], ast.Name) and _is_call(st.value, "set", 0):
            if names is not None or st.targets[0].id in ps:
                bad(where, "the set of file option names is created twice / shadows a parameter", st)
            names = st.targets[0].id
            continue
        if isinstance(st, ast.For) and not st.orelse and isinstance(st.target, ast.Name) and _is_name(st.iter, paths) and names:
            p = st.target.id
            ok = False
            if len(st.body) == 1 and isinstance(st.body[0], ast.Expr):
                c = st.body[0].value
                if _is_method(c, lambda o: _is_name(o, names), "update", 1):
                    x = c.args[0]
                    if _is_method(x, lambda o: True, "flatten", 0):
                        sub = x.func.value
                        if isinstance(sub, ast.Subscript) and _is_call(sub.value, "_read_config_file", 1) and _is_name(sub.value.args[0], p):
                            sl = sub.slice
                            if isinstance(sl, ast.Tuple) and len(sl.elts) == 2 and isinstance(sl.elts[0], ast.Slice) \
                                    and sl.elts[0].lower is None and sl.elts[0].upper is None and sl.elts[0].step is None \
                                    and _is_const(sl.elts[1], 0):
                                ok = True
            if not ok:
                bad(where, "the collection loop is not `names.update(_read_config_file(p)[:, 0].flatten())`", st)
            out.append(["VCollect"])
            continue
        if isinstance(st, ast.For) and not st.orelse and isinstance(st.target, ast.Name) and \
                (_is_method(st.iter, lambda o: _is_name(o, s), "keys", 0) or _is_name(st.iter, s)):
            k = st.target.id
            if len(st.body) == 1 and isinstance(st.body[0], ast.If) and not st.body[0].orelse and len(st.body[0].body) == 1 \
                    and isinstance(st.body[0].body[0], ast.Raise):
                c = tr_cond(st.body[0].test, dict(key=k, self=s, names=names), where)
                out.append(["VFor", c, _raise_name(st.body[0].body[0], where)])
                continue
            bad(where, "the key loop is not `if <test>: raise E(...)`", st)
        bad(where, "statement outside the whitelist: " + ast.unparse(st)[:120], st)
    return out


def check_readonly(fn, where):
    for n in ast.walk(fn):
        if isinstance(n, (ast.Global, ast.Nonlocal, ast.Delete)):
            bad(where, "global / nonlocal / del in a method that must not write", n)
        if isinstance(n, (ast.Assign, ast.AugAssign, ast.AnnAssign)):
            for t in (n.targets if isinstance(n, ast.Assign) else [n.target]):
                for e in ([t] if not isinstance(t, (ast.Tuple, ast.List)) else t.elts):
                    if not isinstance(e, ast.Name):
                        bad(where, "store into an object in a method that must not write: " + ast.unparse(n)[:100], n)
        if isinstance(n, ast.Call):
            if isinstance(n.func, ast.Name) and n.func.id in ("exec", "setattr", "globals", "delattr", "vars"):
                bad(where, f"{n.func.id}() in a method that must not write", n)
            if isinstance(n.func, ast.Attribute) and n.func.attr in MUTATORS:
                bad(where, f".{n.func.attr}() in a method that must not write", n)


# --------------------------------------------------------------------------- BADS.__init__
def tr_construct(tree, init_params, load_params):
    where = "BADS.__init__"
    cls = [n for n in tree.body if isinstance(n, ast.ClassDef) and n.name == "BADS"]
    if len(cls) != 1:
        bad(where, "class BADS not found exactly once")
    fns = [n for n in cls[0].body if isinstance(n, ast.FunctionDef) and n.name == "__init__"]
    if len(fns) != 1:
        bad(where, "BADS.__init__ not found exactly once")
    fn = fns[0]
    params = [a.arg for a in fn.args.args] + [a.arg for a in fn.args.kwonlyargs]
    s = params[0]
    if "options" not in params:
        bad(where, "no `options` parameter")
    basic_tail = "/option_configs/" + Path(TO.BASIC).name
    adv_tail = "/option_configs/" + Path(TO.ADVANCED).name
    env, out, other = {}, [], []
    first = last = None
    dim_assigned_at = []
    body = _body(fn)

    def is_opts(o):
        return isinstance(o, ast.Attribute) and _is_name(o.value, s) and o.attr == "options"

    def args_of(call, names, st):
        got = {}
        for i, a in enumerate(call.args):
            if isinstance(a, ast.Starred) or i >= len(names):
                bad(where, "starred / surplus argument", st)
            got[names[i]] = a
        for kw in call.keywords:
            if kw.arg is None or kw.arg not in names or kw.arg in got:
                bad(where, "unknown / duplicate / ** keyword", st)
            got[kw.arg] = kw.value
        return got

    def the_file(n, st):
        if isinstance(n, ast.Name) and n.id in env:
            return env[n.id]
        bad(where, "option file argument is not one of the two path variables", st)

    def the_D(n, st):
        if not (isinstance(n, ast.Dict) and len(n.keys) == 1 and _is_const(n.keys[0], "D")
                and isinstance(n.values[0], ast.Attribute) and _is_name(n.values[0].value, s) and n.values[0].attr == "D"):
            bad(where, 'evaluation_parameters is not {"D": self.D}', st)

    for idx, st in enumerate(body):
        # self.D = ...
        if any(isinstance(t, ast.Attribute) and _is_name(t.value, s) and t.attr == "D"
               for n in ast.walk(st) if isinstance(n, (ast.Assign, ast.AugAssign, ast.AnnAssign))
               for t in (n.targets if isinstance(n, ast.Assign) else [n.target])):
            dim_assigned_at.append(idx)
        # the `options` parameter must still be the caller's object when it is passed on
        if first is None:
            for n in ast.walk(st):
                if isinstance(n, ast.Name) and n.id == "options" and not isinstance(n.ctx, ast.Load):
                    bad(where, "the `options` parameter is re-assigned before it is passed to Options()", st)
        mentions = any(is_opts(n) or _is_name(n, "Options") for n in ast.walk(st))
        if isinstance(st, ast.Assign) and len(st.targets) == 1 and isinstance(st.targets[0], ast.Name) and not mentions:
            v = st.value
            if isinstance(v, ast.BinOp) and isinstance(v.op, ast.Add) and _is_name(v.left, "pybads_path") and _is_const(v.right) \
                    and v.right.value in (basic_tail, adv_tail):
                env[st.targets[0].id] = "FBasic" if v.right.value == basic_tail else "FAdvanced"
            elif st.targets[0].id in env:
                bad(where, "a path variable is re-assigned", st)
            continue
        if isinstance(st, ast.Assign) and len(st.targets) == 1 and is_opts(st.targets[0]):
            c = st.value
            if not (isinstance(c, ast.Call) and _is_name(c.func, "Options")):
                bad(where, "self.options is assigned something other than Options(...)", st)
            got = args_of(c, init_params, st)
            if sorted(got) != sorted(init_params):
                bad(where, "Options(...) is not given path, evaluation_parameters and user_options", st)
            f = the_file(got[init_params[0]], st)
            the_D(got[init_params[1]], st)
            if not _is_name(got[init_params[2]], "options"):
                bad(where, "user_options is not the caller's `options`", st)
            out.append(["KInit", f])
            first = idx if first is None else first
            last = idx
            continue
        if isinstance(st, ast.Expr) and isinstance(st.value, ast.Call) and isinstance(st.value.func, ast.Attribute) \
                and is_opts(st.value.func.value) and st.value.func.attr in ("load_options_file", "validate_option_names"):
            c = st.value
            if c.func.attr == "load_options_file":
                got = args_of(c, load_params, st)
                if sorted(got) != sorted(load_params):
                    bad(where, "load_options_file is not given path and evaluation_parameters", st)
                f = the_file(got[load_params[0]], st)
                the_D(got[load_params[1]], st)
                out.append(["KLoad", f])
            else:
                if c.keywords or len(c.args) != 1 or not isinstance(c.args[0], (ast.List, ast.Tuple)):
                    bad(where, "validate_option_names is not given a literal list of paths", st)
                out.append(["KValidate", [the_file(e, st) for e in c.args[0].elts]])
            first = idx if first is None else first
            last = idx
            continue
        other.append(idx)
        # nested use of the loaders (inside an if / loop / try) is outside the whitelist
        for n in ast.walk(st):
            if isinstance(n, ast.Call) and (_is_name(n.func, "Options") or (isinstance(n.func, ast.Attribute)
                                            and n.func.attr in ("load_options_file", "validate_option_names", "init_from_existing_options"))):
                bad(where, "option loading nested in another statement", st)
            if isinstance(n, (ast.Assign, ast.AugAssign, ast.AnnAssign)):
                for t in (n.targets if isinstance(n, ast.Assign) else [n.target]):
                    if is_opts(t):
                        bad(where, "self.options re-assigned", st)
    if first is None:
        bad(where, "no option statement found")
    for i in other:
        if first < i < last:      # between the first and the last option statement nothing but path assignments may happen
            bad(where, "statement between the option statements: " + ast.unparse(body[i])[:100], body[i])
    if not dim_assigned_at or min(dim_assigned_at) > first or any(first <= i <= last for i in dim_assigned_at):
        bad(where, "self.D is not assigned before (and only before) the option statements")
    return out


# --------------------------------------------------------------------------- package census
def census(repo):
    sites = []
    root = repo / "pybads"
    for p in sorted(root.rglob("*.py")):
        rel = p.relative_to(repo).as_posix()
        if rel.startswith("pybads/testing/"):
            continue
        try:
            tree = _parse(p.read_text())
        except SyntaxError as ex:
            raise Untranslatable(f"{rel} does not parse: {ex}", "census")
        for n in ast.walk(tree):
            if isinstance(n, ast.Call):
                f = n.func
                if isinstance(f, ast.Name) and f.id == "Options":
                    sites.append((rel, "Options()"))
                elif isinstance(f, ast.Attribute) and f.attr in ("load_options_file", "validate_option_names", "init_from_existing_options"):
                    sites.append((rel, f.attr))
                elif isinstance(f, ast.Attribute) and f.attr in ("update", "pop", "popitem", "clear", "setdefault", "__setitem__", "__delitem__") \
                        and ((isinstance(f.value, ast.Attribute) and f.value.attr == "options") or _is_name(f.value, "options")):
                    sites.append((rel, f"options.{f.attr}()"))      # a writer of an options object that is not a subscript store
            if isinstance(n, ast.Delete):
                for t in n.targets:
                    if isinstance(t, ast.Subscript) and ((isinstance(t.value, ast.Attribute) and t.value.attr == "options") or _is_name(t.value, "options")):
                        sites.append((rel, "del options[...]"))
            if isinstance(n, (ast.Assign, ast.AugAssign, ast.AnnAssign)):
                for t in (n.targets if isinstance(n, ast.Assign) else [n.target]):
                    if isinstance(t, ast.Attribute) and t.attr == "options":
                        sites.append((rel, "store .options"))
    return sorted(sites)


def _expected_sites(construct):
    exp = [(SRC_OPT, "load_options_file")]
    for k in construct:
        exp.append((SRC_BADS, {"KInit": "Options()", "KLoad": "load_options_file", "KValidate": "validate_option_names"}[k[0]]))
        if k[0] == "KInit":
            exp.append((SRC_BADS, "store .options"))
    return sorted(exp)


# --------------------------------------------------------------------------- translate
def translate(repo: Path = None):
    repo = Path(repo) if repo else REPO
    tree = _parse((repo / SRC_OPT).read_text())
    cls = None
    reader = None
    for i, st in enumerate(tree.body):
        if isinstance(st, ast.Expr) and _is_const(st.value) and isinstance(st.value.value, str):
            continue
        if isinstance(st, ast.ImportFrom) and ((st.module == "__future__" and [a.name for a in st.names] == ["annotations"])
                                               or (st.module == "collections.abc" and [(a.name, a.asname) for a in st.names] == [("MutableMapping", None)])) \
                and st.level == 0:
            continue
        if isinstance(st, ast.Import) and [(a.name, a.asname) for a in st.names] in ([("configparser", None)], [("numpy", "np")]):
            continue
        if isinstance(st, ast.ClassDef) and st.name == "Options" and cls is None:
            cls = st
            continue
        if isinstance(st, ast.FunctionDef) and st.name == "_read_config_file" and reader is None:
            reader = st
            continue
        bad("module options.py", "module-level statement outside the whitelist: " + ast.unparse(st)[:100], st)
    if cls is None or reader is None:
        bad("module options.py", "class Options / _read_config_file not found")
    if cls.decorator_list or cls.keywords or [ast.unparse(b) for b in cls.bases] != ["MutableMapping", "dict"]:
        bad("class Options", "bases are not exactly (MutableMapping, dict) / decorated / metaclass")
    methods = {}
    for st in cls.body:
        if isinstance(st, ast.Expr) and _is_const(st.value) and isinstance(st.value.value, str):
            continue
        if not isinstance(st, ast.FunctionDef) or st.name in methods:
            bad("class Options", "class-level statement that is not a (single) method definition: " + ast.unparse(st)[:80], st)
        methods[st.name] = st
    unknown = sorted(set(methods) - TRANSLATED - set(PASS_THROUGH) - READ_ONLY)
    missing = sorted((TRANSLATED | set(PASS_THROUGH)) - set(methods))
    if unknown or missing:
        bad("class Options", f"methods outside the whitelist {unknown} / expected methods missing {missing}")
    for name, fn in methods.items():
        decos = [ast.unparse(d) for d in fn.decorator_list]
        if decos != (["classmethod"] if name == "init_from_existing_options" else []):
            bad("Options." + name, f"decorators {decos}")
    for name, text in PASS_THROUGH.items():
        if _canon(methods[name]) != _canon(ast.parse(text).body[0]):
            bad("Options." + name, "is not the pass-through to dict it is modelled as: " + ast.unparse(methods[name])[:160])
    for name in READ_ONLY & set(methods):
        check_readonly(methods[name], "Options." + name)
    if "init_from_existing_options" in methods:
        # it may construct (cls(...)): whatever it passes goes through __init__; it must not be used by the package (census)
        pass
    load = methods["load_options_file"]
    LOAD_PARAMS[0] = _params(load, "Options.load_options_file")[1:]
    if [ast.unparse(d) for d in load.args.defaults] != ["None"]:
        bad("Options.load_options_file", "default of evaluation_parameters is not None")
    prog = dict(
        init=[[g, s] for g, s in tr_init(methods["__init__"])],
        load=tr_load(load),
        validate=tr_validate(methods["validate_option_names"]),
    )
    btree = _parse((repo / SRC_BADS).read_text())
    prog["construct"] = tr_construct(btree, _params(methods["__init__"], "Options.__init__")[1:], LOAD_PARAMS[0])
    got, exp = census(repo), _expected_sites(prog["construct"])
    if got != exp:
        extra = [x for x in got if x not in exp] or [x for x in exp if x not in got]
        raise Untranslatable(f"package census: option objects are built / loaded / validated / re-bound at sites the model does not know: {extra[:4]}", "census")
    r = copy.deepcopy(reader)
    r.body = _body(r)
    prog["read_config"] = " ".join(ast.unparse(r).split())
    return prog


# --------------------------------------------------------------------------- Coq
def cstr(s):
    return TO.coq_str(s) + "%string"


def coq_cond(c):
    if c[0] in ("CTrue", "CKeyProtected", "CKeyInFiles", "CUserGiven"):
        return c[0]
    if c[0] in ("CKeyIs", "CUserHas"):
        return f"({c[0]} {cstr(c[1])})"
    if c[0] == "CNot":
        return f"(CNot {coq_cond(c[1])})"
    return f"({c[0]} {coq_cond(c[1])} {coq_cond(c[2])})"


def coq_text(prog, sha):
    init = ";\n  ".join(f"({coq_cond(g)}, " + (s[0] if len(s) == 1 else f"{s[0]} {cstr(s[1])}") + ")" for g, s in prog["init"])
    load = ";\n  ".join("LBind" if s[0] == "LBind" else f"LFor {coq_cond(s[1])} [" + "; ".join(s[2]) + "]" for s in prog["load"])
    val = ";\n  ".join("VCollect" if s[0] == "VCollect" else f"VFor {coq_cond(s[1])} {cstr(s[2])}" for s in prog["validate"])
    con = ";\n  ".join(f"{k[0]} {k[1]}" if k[0] != "KValidate" else "KValidate [" + "; ".join(k[1]) + "]" for k in prog["construct"])
    return (
        "(* GENERATED by translate/optionsclass.py from pybads/bads/options.py and BADS.__init__ of the checked tree\n"
        f"   (sha256 of both files: {sha}).  Do not edit; rewritten by every ./check C20. *)\n"
        "From Coq Require Import List String.\nFrom PV Require Import Model.Options Model.OptionsSrc.\nImport ListNotations.\n\n"
        f"Definition src_init : list (cond * istmt) := [\n  {init}\n].\n\n"
        f"Definition src_load : list lstmt := [\n  {load}\n].\n\n"
        f"Definition src_validate : list vstmt := [\n  {val}\n].\n\n"
        f"Definition src_construct : list kstmt := [\n  {con}\n].\n\n"
        "Definition src_class : class_src := mkClass src_init src_load src_validate.\n\n"
        f"Definition src_read_config : string := {cstr(prog['read_config'])}.\n"
    )


def poison(why):
    OUT.parent.mkdir(parents=True, exist_ok=True)
    for ext in (".vo", ".vos", ".vok", ".glob"):
        f = OUT.with_suffix(ext)
        if f.exists():
            f.unlink()
    OUT.write_text("(* translate/optionsclass.py could not translate the current source: no definition is emitted, so nothing that\n"
                   "   depends on this file builds.  " + why.replace("*)", "* )")[:600] + " *)\n")


def current(repo: Path = None):
    """-> (prog | None, exception | None)   never raises"""
    try:
        return translate(repo), None
    except Exception as ex:          # noqa: BLE001 — fail closed, whatever went wrong
        return None, ex


def reference():
    try:
        return json.loads(REFERENCE.read_text())
    except Exception:
        return None


def diff(cur, ref=None):
    """Which parts of the translation differ from the reference snapshot (ONLY to aim the search / word the report)."""
    ref = ref if ref is not None else reference()
    if not cur or not ref:
        return []
    out = []
    for part in ("init", "load", "validate", "construct", "read_config"):
        if cur.get(part) != ref.get(part):
            out.append(dict(part=part, what=f"{part}: now {json.dumps(cur.get(part))[:300]} ; reference {json.dumps(ref.get(part))[:300]}"))
    return out


def generated_ok():
    return OUT.exists() and "Definition src_class" in OUT.read_text()


def emit(repo: Path = None):
    repo = Path(repo) if repo else REPO
    try:
        prog = translate(repo)
        h = hashlib.sha256()
        for rel in (SRC_OPT, SRC_BADS):
            h.update((repo / rel).read_bytes())
        text = coq_text(prog, h.hexdigest()[:16])
    except Exception as ex:
        poison(repr(ex))
        raise
    OUT.parent.mkdir(parents=True, exist_ok=True)
    if not OUT.exists() or OUT.read_text() != text:
        OUT.write_text(text)
    d = diff(prog)
    return dict(init=len(prog["init"]), load=len(prog["load"]), validate=len(prog["validate"]), construct=[k[0] for k in prog["construct"]],
                differs_from_reference=[x["part"] for x in d])


if __name__ == "__main__":
    import sys
    if "--write-reference" in sys.argv:
        REFERENCE.write_text(json.dumps(translate(), indent=1) + "\n")
        print("reference written")
    else:
        print(emit())
        print(OUT.read_text())
