"""translate/history.py - IterationHistory and OptimizeResult (the containers) regenerated from the source -> coq/gen/Src_history.v

Fail-closed Python-ast translator of
  pybads/utils/iteration_history.py   class IterationHistory: __init__, __setitem__, record, _expand_array, record_iteration
  pybads/bads/optimize_result.py      class OptimizeResult: _keys, __setitem__, __getattr__          (set_attributes: translate/final.py)
into the program language of coq/Model/HistorySrc.v.  Code is located structurally (class / method names), never by line number;
parameters are identified by POSITION (a renamed parameter or loop variable changes nothing).

Whitelist (anything else raises Untranslatable -> the generated file is poisoned):
  integer expressions   int literal | iteration | resize_amount | len(self[key]) | a + b | a - b
  array expressions     None | val (in __setitem__) | np.full([n], None) | np.append(self[key], a, axis=0)
  cell expressions      value | copy.deepcopy(value)
  conditions            a < b, a > b (= b < a), a <= b, a >= b (= b <= a) | key in self | key not in self | self.check_keys |
                        self[key] is None | self[key] is not None | not c | c and d | c or d   (not not c = c)
  statements            if / elif / else | raise <builtin exception class>[(<string literal>)] | pass | a leading docstring |
                        dict.__setitem__(self, key, copy.deepcopy(a)) | dict.__setitem__(self, key, a) | self[key] = a |
                        self._expand_array(key, n) | self[key][n] = v | self.record(key, value, iteration) (in record_iteration)
  __init__ / record_iteration additionally: super().__init__() | self.check_keys = True/False | for key in keys: | for key, value in key_value.items():
  OptimizeResult.__setitem__: if [not] key [not] in OptimizeResult._keys / raise / dict.__setitem__(self, key, [copy.deepcopy](val))
  OptimizeResult.__getattr__: try: return self[name] / except <Class> [as e]: raise <Class>(name) [from e]
Normalised (provably behaviour-preserving): parameter / loop-variable names; a > b as b < a; double negation; when the then-arm of an `if`
always ends in a raise, the statements after the `if` are the tail of its else-arm (`if c: raise E` + rest  ==  `if c: raise E else: rest`).
Pinned as text (raise when different): __getitem__ / __delitem__ / __len__ / __iter__ of both classes delegate to dict; OptimizeResult.__init__;
the base classes; the exact set of methods of each class (a new method could write the dict); `import copy`, `import numpy as np`.
Census over the package (outside pybads/testing): `check_keys` is mentioned only in IterationHistory.__init__ (stores) and __setitem__ (load);
`_keys` only in OptimizeResult (the class-level list and __setitem__); `_expand_array` is called only from record; no subclass of either class;
no assignment to an attribute OF the two classes.

translate/history_reference.json holds the text the proofs were written against; it is used ONLY to say which definition changed (to aim
the search), never to decide anything.
"""
import ast
import json
import os
import warnings
from pathlib import Path

VERIF = Path(__file__).resolve().parent.parent
REPO = Path(os.environ.get("VERIF_REPO", "/repo"))
SRC_H = "pybads/utils/iteration_history.py"
SRC_R = "pybads/bads/optimize_result.py"
OUT = VERIF / "coq" / "gen" / "Src_history.v"
REF = Path(__file__).with_name("history_reference.json")

EXC_CLASSES = {"ValueError", "TypeError", "KeyError", "IndexError", "AttributeError", "RuntimeError", "Exception", "NotImplementedError"}
H_METHODS = {"__init__", "__setitem__", "__getitem__", "__iter__", "__len__", "__delitem__", "record", "_expand_array", "record_iteration", "__str__"}
R_METHODS = {"__init__", "set_attributes", "__getattr__", "__getitem__", "__iter__", "__len__", "__delitem__", "__setitem__"}
PINNED = {
    "__getitem__": "def __getitem__(self, key):\n    return dict.__getitem__(self, key)",
    "__delitem__": "def __delitem__(self, key):\n    return dict.__delitem__(self, key)",
    "__len__": "def __len__(self):\n    return dict.__len__(self)",
    "__iter__": "def __iter__(self):\n    yield from sorted(dict.__iter__(self))",
}
R_INIT = "def __init__(self, bads=None):\n    super().__init__()\n    if bads is not None:\n        self.set_attributes(bads)"

_REGION = ["driver"]


class Untranslatable(Exception):
    def __init__(self, msg, region=None):
        super().__init__(msg)
        self.region = region or _REGION[0]


def region(r):
    _REGION[0] = r


def bad(node, why):
    line = getattr(node, "lineno", "?")
    try:
        txt = ast.unparse(node)[:120]
    except Exception:
        txt = type(node).__name__
    raise Untranslatable(f"{_REGION[0]}: {why}: `{txt}` (line {line})", _REGION[0])


def parse_file(rel):
    with warnings.catch_warnings():
        warnings.simplefilter("ignore")
        return ast.parse((REPO / rel).read_text())


def strip_doc(body):
    if body and isinstance(body[0], ast.Expr) and isinstance(body[0].value, ast.Constant) and isinstance(body[0].value.value, str):
        return body[1:]
    return body


def fn_dump(fn):
    """structure of a function without docstring, annotations and positions"""
    f = ast.parse(ast.unparse(fn)).body[0]
    f.body = strip_doc(f.body) or [ast.Pass()]
    f.returns = None
    for a in f.args.posonlyargs + f.args.args + f.args.kwonlyargs:
        a.annotation = None
    return ast.dump(f)


def pinned_ok(fn, text):
    return fn_dump(fn) == fn_dump(ast.parse(text).body[0])


def params(fn, n):
    a = fn.args
    if a.vararg or a.kwarg or a.kwonlyargs or a.posonlyargs or a.defaults or a.kw_defaults:
        bad(fn, "signature with defaults / *args / **kwargs")
    if fn.decorator_list:
        bad(fn, "decorated method")
    if len(a.args) != n:
        bad(fn, f"expected {n} parameters")
    names = [x.arg for x in a.args]
    if len(set(names)) != n:
        bad(fn, "duplicate parameter names")
    return names


def is_name(n, name):
    return isinstance(n, ast.Name) and name is not None and n.id == name


def is_attr(n, base, attr):
    return isinstance(n, ast.Attribute) and n.attr == attr and is_name(n.value, base)


# --------------------------------------------------------------------------- IterationHistory

class Ctx:
    """names of the current method: self, key, val, value, iteration, amount (None = not available here)"""

    def __init__(self, **kw):
        self.me = self.key = self.val = self.value = self.iteration = self.amount = None
        self.allow_record = False
        self.__dict__.update(kw)

    def names(self):
        return {v for k, v in self.__dict__.items() if k != "allow_record" and isinstance(v, str)}


def is_self_key(n, c):
    return isinstance(n, ast.Subscript) and is_name(n.value, c.me) and is_name(n.slice, c.key) and c.key is not None


def tr_z(n, c):
    if isinstance(n, ast.Constant) and type(n.value) is int:
        return f"(ZLit ({n.value}))"
    if is_name(n, c.iteration):
        return "ZIter"
    if is_name(n, c.amount):
        return "ZAmount"
    if isinstance(n, ast.Call) and is_name(n.func, "len") and len(n.args) == 1 and not n.keywords and is_self_key(n.args[0], c):
        return "ZLenSelf"
    if isinstance(n, ast.BinOp) and isinstance(n.op, (ast.Add, ast.Sub)):
        return f"({'ZAdd' if isinstance(n.op, ast.Add) else 'ZSub'} {tr_z(n.left, c)} {tr_z(n.right, c)})"
    bad(n, "integer expression outside the whitelist")


def is_none(n):
    return isinstance(n, ast.Constant) and n.value is None


def tr_a(n, c):
    if is_none(n):
        return "ANone"
    if is_name(n, c.val):
        return "AValArg"
    if isinstance(n, ast.Call) and is_attr(n.func, "np", "full"):
        if (len(n.args) == 2 and not n.keywords and isinstance(n.args[0], ast.List) and len(n.args[0].elts) == 1 and is_none(n.args[1])):
            return f"(AFullNone {tr_z(n.args[0].elts[0], c)})"
        bad(n, "np.full other than np.full([n], None)")
    if isinstance(n, ast.Call) and is_attr(n.func, "np", "append"):
        kw = n.keywords
        if (len(n.args) == 2 and len(kw) == 1 and kw[0].arg == "axis" and isinstance(kw[0].value, ast.Constant) and kw[0].value.value == 0
                and type(kw[0].value.value) is int and is_self_key(n.args[0], c)):
            return f"(AAppendSelf {tr_a(n.args[1], c)})"
        bad(n, "np.append other than np.append(self[key], a, axis=0)")
    bad(n, "array expression outside the whitelist")


def is_deepcopy(n):
    return isinstance(n, ast.Call) and is_attr(n.func, "copy", "deepcopy") and len(n.args) == 1 and not n.keywords


def tr_v(n, c):
    if is_name(n, c.value):
        return "VValue"
    if is_deepcopy(n) and is_name(n.args[0], c.value):
        return "VDeepcopyValue"
    bad(n, "cell value outside the whitelist (value | copy.deepcopy(value))")


def c_not(t):
    return t[len("(CNot "):-1] if t.startswith("(CNot ") else f"(CNot {t})"


def tr_c(n, c):
    if isinstance(n, ast.Compare) and len(n.ops) == 1:
        op, a, b = n.ops[0], n.left, n.comparators[0]
        if isinstance(op, (ast.In, ast.NotIn)):
            if is_name(a, c.key) and is_name(b, c.me):
                return "CKeyIn" if isinstance(op, ast.In) else "(CNot CKeyIn)"
            bad(n, "membership test other than `key in self`")
        if isinstance(op, (ast.Is, ast.IsNot)):
            if is_self_key(a, c) and is_none(b):
                return "CSelfIsNone" if isinstance(op, ast.Is) else "(CNot CSelfIsNone)"
            bad(n, "identity test other than `self[key] is None`")
        if isinstance(op, ast.Lt):
            return f"(CLt {tr_z(a, c)} {tr_z(b, c)})"
        if isinstance(op, ast.Gt):
            return f"(CLt {tr_z(b, c)} {tr_z(a, c)})"
        if isinstance(op, ast.LtE):
            return f"(CLe {tr_z(a, c)} {tr_z(b, c)})"
        if isinstance(op, ast.GtE):
            return f"(CLe {tr_z(b, c)} {tr_z(a, c)})"
        bad(n, "comparison operator outside the whitelist")
    if is_attr(n, c.me, "check_keys"):
        return "CCheckKeys"
    if isinstance(n, ast.UnaryOp) and isinstance(n.op, ast.Not):
        return c_not(tr_c(n.operand, c))
    if isinstance(n, ast.BoolOp):
        parts = [tr_c(v, c) for v in n.values]
        ctor = "CAnd" if isinstance(n.op, ast.And) else "COr"
        out = parts[-1]
        for p in reversed(parts[:-1]):
            out = f"({ctor} {p} {out})"
        return out
    bad(n, "condition outside the whitelist")


def tr_raise(s):
    if s.cause is not None or s.exc is None:
        bad(s, "raise with a cause / bare raise")
    e = s.exc
    if isinstance(e, ast.Call):
        if e.keywords or not all(isinstance(a, ast.Constant) and isinstance(a.value, str) for a in e.args):
            bad(s, "exception arguments other than string literals")
        e = e.func
    if isinstance(e, ast.Name) and e.id in EXC_CLASSES:
        return e.id
    bad(s, "raised class outside the whitelist")


def always_raises(stmts):
    if not stmts:
        return False
    last = stmts[-1]
    if isinstance(last, ast.Raise):
        return True
    if isinstance(last, ast.If):
        return always_raises(last.body) and always_raises(last.orelse)
    return False


def blk(items):
    out = "BNil"
    for t in reversed(items):
        out = f"(BCons {t} {out})"
    return out


def tr_stmt(s, c):
    if isinstance(s, ast.Raise):
        return f'(SRaise "{tr_raise(s)}")'
    if isinstance(s, ast.Expr) and isinstance(s.value, ast.Call):
        call = s.value
        f = call.func
        if isinstance(f, ast.Attribute) and f.attr == "__setitem__" and is_name(f.value, "dict"):
            if len(call.args) == 3 and not call.keywords and is_name(call.args[0], c.me) and is_name(call.args[1], c.key) and c.key:
                x = call.args[2]
                if is_deepcopy(x):
                    return f"(SDictSet true {tr_a(x.args[0], c)})"
                return f"(SDictSet false {tr_a(x, c)})"
            bad(s, "dict.__setitem__ with other arguments than (self, key, .)")
        if is_attr(f, c.me, "_expand_array"):
            if len(call.args) == 2 and not call.keywords and is_name(call.args[0], c.key) and c.key:
                return f"(SExpand {tr_z(call.args[1], c)})"
            bad(s, "_expand_array with other arguments than (key, n)")
        if is_attr(f, c.me, "record") and c.allow_record:
            if (len(call.args) == 3 and not call.keywords and is_name(call.args[0], c.key) and is_name(call.args[1], c.value)
                    and is_name(call.args[2], c.iteration) and c.key and c.value and c.iteration):
                return "SRecord"
            bad(s, "self.record with other arguments than (key, value, iteration)")
        bad(s, "call outside the whitelist")
    if isinstance(s, ast.Assign) and len(s.targets) == 1:
        t = s.targets[0]
        if is_self_key(t, c):
            return f"(SSelfSet {tr_a(s.value, c)})"
        if isinstance(t, ast.Subscript) and is_self_key(t.value, c):
            return f"(SStoreAt {tr_z(t.slice, c)} {tr_v(s.value, c)})"
        bad(s, "assignment outside the whitelist")
    bad(s, "statement outside the whitelist")


def tr_block(stmts, c):
    items = []
    for j, s in enumerate(stmts):
        if isinstance(s, ast.Pass):
            continue
        if isinstance(s, ast.If):
            test = tr_c(s.test, c)
            rest = stmts[j + 1:]
            if always_raises(s.body) and rest:
                # `if c: ...raise` + rest  ==  `if c: ...raise else: <else-arm>; rest`
                items.append(f"(SIf {test} {tr_block(s.body, c)} {tr_block(list(s.orelse) + list(rest), c)})")
                return blk(items)
            items.append(f"(SIf {test} {tr_block(s.body, c)} {tr_block(s.orelse, c)})")
            continue
        items.append(tr_stmt(s, c))
    return blk(items)


def tr_lstmts(fn, c, keys=None, key_value=None):
    out = []
    for s in strip_doc(fn.body):
        if isinstance(s, ast.Expr) and ast.dump(s.value) == ast.dump(ast.parse("super().__init__()").body[0].value) and keys is not None:
            out.append("LSuperInit")
        elif (isinstance(s, ast.Assign) and len(s.targets) == 1 and is_attr(s.targets[0], c.me, "check_keys") and keys is not None):
            if isinstance(s.value, ast.Constant) and type(s.value.value) is bool:
                out.append(f"(LSetCheck {'true' if s.value.value else 'false'})")
            else:
                bad(s, "check_keys assigned something else than True / False")
        elif isinstance(s, ast.For):
            if s.orelse:
                bad(s, "for ... else")
            if keys is not None and isinstance(s.target, ast.Name) and is_name(s.iter, keys):
                k = s.target.id
                if k in c.names():
                    bad(s, "loop variable shadows a parameter")
                out.append(f"(LForKeys {tr_block(s.body, Ctx(me=c.me, key=k))})")
            elif (key_value is not None and isinstance(s.target, ast.Tuple) and len(s.target.elts) == 2
                  and all(isinstance(e, ast.Name) for e in s.target.elts) and isinstance(s.iter, ast.Call) and not s.iter.args
                  and not s.iter.keywords and is_attr(s.iter.func, key_value, "items")):
                k, v = (e.id for e in s.target.elts)
                if k == v or {k, v} & c.names():
                    bad(s, "loop variables shadow a parameter / each other")
                out.append(f"(LForItems {tr_block(s.body, Ctx(me=c.me, key=k, value=v, iteration=c.iteration, allow_record=True))})")
            else:
                bad(s, "loop outside the whitelist")
        elif isinstance(s, ast.If):
            out.append(f"(LStmt (SIf {tr_c(s.test, c)} {tr_block(s.body, c)} {tr_block(s.orelse, c)}))")
        elif isinstance(s, ast.Pass):
            continue
        else:
            out.append(f"(LStmt {tr_stmt(s, c)})")
    return "[" + "; ".join(out) + "]"


def class_of(tree, name, bases, methods, allow_assign=()):
    cls = [n for n in tree.body if isinstance(n, ast.ClassDef) and n.name == name]
    if len(cls) != 1:
        raise Untranslatable(f"class {name} not found exactly once", _REGION[0])
    cls = cls[0]
    if cls.decorator_list or cls.keywords or [ast.unparse(b) for b in cls.bases] != bases:
        bad(cls, f"bases of {name} are not {bases}")
    found = {}
    for s in strip_doc(cls.body):
        if isinstance(s, ast.FunctionDef):
            if s.name in found:
                bad(s, "method defined twice")
            found[s.name] = s
        elif isinstance(s, ast.Assign) and len(s.targets) == 1 and isinstance(s.targets[0], ast.Name) and s.targets[0].id in allow_assign:
            if s.targets[0].id in found:
                bad(s, "class attribute defined twice")
            found[s.targets[0].id] = s
        else:
            bad(s, f"unexpected statement in class {name}")
    if set(found) - set(allow_assign) != methods:
        raise Untranslatable(f"{_REGION[0]}: methods of {name} are {sorted(set(found) - set(allow_assign))}, expected {sorted(methods)}", _REGION[0])
    return cls, found


def check_imports(tree, rel):
    ok_copy = ok_np = False
    for n in tree.body:
        if isinstance(n, ast.Import):
            for a in n.names:
                if a.name == "copy" and a.asname is None:
                    ok_copy = True
                if a.name == "numpy" and a.asname == "np":
                    ok_np = True
    for n in ast.walk(tree):
        if isinstance(n, (ast.Name,)) and isinstance(n.ctx, ast.Store) and n.id in ("copy", "np", "dict", "len", "super", "sorted"):
            bad(n, f"{rel}: a library name is rebound")
        if isinstance(n, (ast.FunctionDef, ast.ClassDef)) and n.name in ("copy", "np", "dict", "len", "super", "sorted"):
            bad(n, f"{rel}: a library name is redefined")
        if isinstance(n, ast.ImportFrom) and any((a.asname or a.name) in ("copy", "np", "dict", "len") for a in n.names):
            bad(n, f"{rel}: a library name is re-imported")
    if not ok_copy or not ok_np:
        raise Untranslatable(f"{rel}: `import copy` / `import numpy as np` not found", _REGION[0])


def read_only_method(fn, c_self):
    for n in ast.walk(fn):
        if isinstance(n, (ast.Subscript, ast.Attribute)) and isinstance(n.ctx, (ast.Store, ast.Del)):
            bad(n, "store in a method that must be read-only")
        if isinstance(n, ast.Call) and isinstance(n.func, ast.Attribute) and is_name(n.func.value, c_self) and n.func.attr not in ("items", "keys", "values", "get"):
            bad(n, "call on self in a method that must be read-only")
        if is_name(n, "dict") or (isinstance(n, ast.Name) and n.id in ("setattr", "delattr", "vars", "exec", "eval")):
            bad(n, "dict / setattr in a method that must be read-only")


def parse_history(defs):
    region("history:class")
    tree = parse_file(SRC_H)
    check_imports(tree, SRC_H)
    cls, m = class_of(tree, "IterationHistory", ["MutableMapping", "dict"], H_METHODS)
    for name, text in PINNED.items():
        region("history:" + name)
        if not pinned_ok(m[name], text):
            bad(m[name], "does not delegate to dict as pinned")
    region("history:__str__")
    read_only_method(m["__str__"], params(m["__str__"], 1)[0])

    region("history:setitem")
    p = params(m["__setitem__"], 3)
    defs.append(("h_setitem", "block", tr_block(strip_doc(m["__setitem__"].body), Ctx(me=p[0], key=p[1], val=p[2]))))
    region("history:record")
    p = params(m["record"], 4)
    defs.append(("h_record", "block", tr_block(strip_doc(m["record"].body), Ctx(me=p[0], key=p[1], value=p[2], iteration=p[3]))))
    region("history:expand")
    p = params(m["_expand_array"], 3)
    defs.append(("h_expand", "block", tr_block(strip_doc(m["_expand_array"].body), Ctx(me=p[0], key=p[1], amount=p[2]))))
    region("history:record_iteration")
    p = params(m["record_iteration"], 3)
    defs.append(("h_record_iteration", "list lstmt", tr_lstmts(m["record_iteration"], Ctx(me=p[0], iteration=p[2]), key_value=p[1])))
    region("history:init")
    p = params(m["__init__"], 2)
    defs.append(("h_init", "list lstmt", tr_lstmts(m["__init__"], Ctx(me=p[0]), keys=p[1])))
    return cls


# --------------------------------------------------------------------------- OptimizeResult

def tr_rc(n, key):
    if isinstance(n, ast.Compare) and len(n.ops) == 1 and isinstance(n.ops[0], (ast.In, ast.NotIn)):
        if is_name(n.left, key) and is_attr(n.comparators[0], "OptimizeResult", "_keys"):
            return "RCKeyInKeys" if isinstance(n.ops[0], ast.In) else "(RCNot RCKeyInKeys)"
    if isinstance(n, ast.UnaryOp) and isinstance(n.op, ast.Not):
        t = tr_rc(n.operand, key)
        return t[len("(RCNot "):-1] if t.startswith("(RCNot ") else f"(RCNot {t})"
    bad(n, "condition other than `key [not] in OptimizeResult._keys`")


def rblk(items):
    out = "RNil"
    for t in reversed(items):
        out = f"(RCons {t} {out})"
    return out


def tr_rblock(stmts, p):
    items = []
    for j, s in enumerate(stmts):
        if isinstance(s, ast.Pass):
            continue
        if isinstance(s, ast.If):
            rest = stmts[j + 1:]
            if always_raises(s.body) and rest:
                items.append(f"(RSIf {tr_rc(s.test, p[1])} {tr_rblock(s.body, p)} {tr_rblock(list(s.orelse) + list(rest), p)})")
                return rblk(items)
            items.append(f"(RSIf {tr_rc(s.test, p[1])} {tr_rblock(s.body, p)} {tr_rblock(s.orelse, p)})")
        elif isinstance(s, ast.Raise):
            items.append(f'(RSRaise "{tr_raise(s)}")')
        elif (isinstance(s, ast.Expr) and isinstance(s.value, ast.Call) and isinstance(s.value.func, ast.Attribute)
              and s.value.func.attr == "__setitem__" and is_name(s.value.func.value, "dict")):
            call = s.value
            if not (len(call.args) == 3 and not call.keywords and is_name(call.args[0], p[0]) and is_name(call.args[1], p[1])):
                bad(s, "dict.__setitem__ with other arguments than (self, key, .)")
            x = call.args[2]
            if is_deepcopy(x) and is_name(x.args[0], p[2]):
                items.append("(RSDictSet true)")
            elif is_name(x, p[2]):
                items.append("(RSDictSet false)")
            else:
                bad(s, "stored value other than val / copy.deepcopy(val)")
        else:
            bad(s, "statement outside the whitelist")
    return rblk(items)


def parse_result(defs):
    region("result:class")
    tree = parse_file(SRC_R)
    check_imports(tree, SRC_R)
    cls, m = class_of(tree, "OptimizeResult", ["dict"], R_METHODS, allow_assign=("_keys",))
    region("result:keys")
    if "_keys" not in m:
        raise Untranslatable("result:keys: OptimizeResult._keys not found", "result:keys")
    kv = m["_keys"].value
    if not (isinstance(kv, ast.List) and all(isinstance(e, ast.Constant) and isinstance(e.value, str) for e in kv.elts)):
        bad(m["_keys"], "_keys is not a list of string literals")
    keys = [e.value for e in kv.elts]
    if not all(k.isidentifier() for k in keys):
        bad(m["_keys"], "a key is not an identifier")
    defs.append(("r_keys", "list string", "[" + "; ".join(f'"{k}"' for k in keys) + "]"))
    for name, text in PINNED.items():
        region("result:" + name)
        if not pinned_ok(m[name], text):
            bad(m[name], "does not delegate to dict as pinned")
    region("result:init")
    if not pinned_ok(m["__init__"], R_INIT):
        bad(m["__init__"], "OptimizeResult.__init__ is not the pinned text")
    region("result:setitem")
    p = params(m["__setitem__"], 3)
    defs.append(("r_setitem", "rblock", tr_rblock(strip_doc(m["__setitem__"].body), p)))
    region("result:getattr")
    p = params(m["__getattr__"], 2)
    body = strip_doc(m["__getattr__"].body)
    ok = (len(body) == 1 and isinstance(body[0], ast.Try) and not body[0].orelse and not body[0].finalbody and len(body[0].handlers) == 1
          and len(body[0].body) == 1 and isinstance(body[0].body[0], ast.Return) and isinstance(body[0].body[0].value, ast.Subscript)
          and is_name(body[0].body[0].value.value, p[0]) and is_name(body[0].body[0].value.slice, p[1]))
    if not ok:
        bad(m["__getattr__"], "__getattr__ is not try: return self[name] / except ...")
    h = body[0].handlers[0]
    # a handler for a SUPERCLASS of KeyError (LookupError, Exception, BaseException) also catches it: not expressible as "the caught class"
    if not (isinstance(h.type, ast.Name) and h.type.id in EXC_CLASSES - {"Exception"} and len(h.body) == 1 and isinstance(h.body[0], ast.Raise)):
        bad(h, "handler outside the whitelist")
    r = h.body[0]
    if not (isinstance(r.exc, ast.Call) and isinstance(r.exc.func, ast.Name) and r.exc.func.id in EXC_CLASSES and not r.exc.keywords
            and len(r.exc.args) == 1 and is_name(r.exc.args[0], p[1]) and (r.cause is None or is_name(r.cause, h.name))):
        bad(r, "raise in the handler outside the whitelist")
    defs.append(("r_getattr", "string * string", f'("{h.type.id}", "{r.exc.func.id}")'))
    return cls


# --------------------------------------------------------------------------- census over the package

def census(hcls, rcls):
    region("census")
    for path in sorted((REPO / "pybads").rglob("*.py")):
        rel = str(path.relative_to(REPO))
        if "/testing/" in rel or "__pycache__" in rel:
            continue
        try:
            with warnings.catch_warnings():
                warnings.simplefilter("ignore")
                tree = ast.parse(path.read_text())
        except SyntaxError as ex:
            raise Untranslatable(f"census: {rel} does not parse: {ex}", "census")
        inside = {}
        if rel == SRC_H:
            for f in hcls.body:
                if isinstance(f, ast.FunctionDef):
                    pass
        for n in ast.walk(tree):
            if isinstance(n, ast.ClassDef):
                for b in n.bases:
                    if ast.unparse(b).split(".")[-1] in ("IterationHistory", "OptimizeResult"):
                        bad(n, f"{rel}: subclass of a modelled container")
            if isinstance(n, ast.Attribute) and isinstance(n.ctx, (ast.Store, ast.Del)) and isinstance(n.value, ast.Name) and n.value.id in ("IterationHistory", "OptimizeResult"):
                bad(n, f"{rel}: attribute of a modelled class assigned")
            if isinstance(n, ast.Call) and isinstance(n.func, ast.Name) and n.func.id in ("setattr", "delattr") and n.args \
                    and isinstance(n.args[0], ast.Name) and n.args[0].id in ("IterationHistory", "OptimizeResult"):
                bad(n, f"{rel}: setattr on a modelled class")
        # mentions of check_keys / _keys / _expand_array: where
        def mentions(tree, attr):
            return [n for n in ast.walk(tree) if isinstance(n, ast.Attribute) and n.attr == attr]
        def within(node, fns):
            return any(node in list(ast.walk(f)) for f in fns)
        hm = {f.name: f for f in hcls.body if isinstance(f, ast.FunctionDef)} if rel == SRC_H else {}
        rm = {f.name: f for f in rcls.body if isinstance(f, ast.FunctionDef)} if rel == SRC_R else {}
        # the census walks the tree parsed HERE; the class bodies come from the same text, so locate by position
        def pos_in(node, f):
            return f.lineno <= node.lineno <= f.end_lineno
        for n in mentions(tree, "check_keys"):
            ok = rel == SRC_H and ((isinstance(n.ctx, ast.Store) and pos_in(n, hm["__init__"])) or (isinstance(n.ctx, ast.Load) and pos_in(n, hm["__setitem__"])))
            if not ok:
                bad(n, f"{rel}: check_keys mentioned outside IterationHistory.__init__ (store) / __setitem__ (load)")
        for n in mentions(tree, "_keys"):
            ok = rel == SRC_R and isinstance(n.ctx, ast.Load) and pos_in(n, rm["__setitem__"])
            if not ok:
                bad(n, f"{rel}: _keys mentioned outside OptimizeResult.__setitem__")
        for n in mentions(tree, "_expand_array"):
            ok = rel == SRC_H and isinstance(n.ctx, ast.Load) and pos_in(n, hm["record"])
            if not ok:
                bad(n, f"{rel}: _expand_array mentioned outside IterationHistory.record")
        for n in ast.walk(tree):
            if isinstance(n, ast.Constant) and n.value in ("check_keys", "_keys", "_expand_array") and rel not in ():
                bad(n, f"{rel}: the name of a modelled attribute as a string (getattr / setattr / __dict__ access?)")


# --------------------------------------------------------------------------- driver

ORDER = ["h_init", "h_setitem", "h_record", "h_expand", "h_record_iteration", "r_keys", "r_setitem", "r_getattr"]
REGION_OF = {"h_init": "init", "h_setitem": "setitem", "h_record": "record", "h_expand": "expand", "h_record_iteration": "record_iteration",
             "r_keys": "rkeys", "r_setitem": "rsetitem", "r_getattr": "rgetattr"}


def parse():
    region("driver")
    defs = []
    hcls = parse_history(defs)
    rcls = parse_result(defs)
    census(hcls, rcls)
    region("driver")
    d = {n: (t, b) for n, t, b in defs}
    if sorted(d) != sorted(ORDER) or len(defs) != len(ORDER):
        raise Untranslatable(f"definitions emitted {[n for n, _, _ in defs]} are not the fixed set", "driver")
    return d


def render(d):
    lines = ["(* GENERATED by translate/history.py from " + SRC_H + " (class IterationHistory) and " + SRC_R,
             "   (class OptimizeResult: _keys, __setitem__, __getattr__) on every ./check run - do not edit, never committed.",
             "   The program language and its meaning: Model/HistorySrc.v. *)",
             "From Coq Require Import ZArith List String Bool.", "From PV Require Import Model.History Model.HistorySrc.",
             "Import ListNotations.", "Open Scope string_scope.", "Open Scope Z_scope.", ""]
    for n in ORDER:
        t, b = d[n]
        lines.append(f"Definition src_{n} : {t} := {b}.")
    lines.append("Definition src_history : hprog := mkHP src_h_init src_h_setitem src_h_record src_h_expand src_h_record_iteration.")
    lines.append("Definition src_result : rprog := mkRP src_r_keys src_r_setitem (fst src_r_getattr) (snd src_r_getattr).")
    return "\n".join(lines) + "\n"


LAST = {}


def diff(d):
    """names of the definitions whose text differs from the reference (ONLY to aim the search)"""
    try:
        ref = json.loads(REF.read_text())
    except Exception:
        return None
    return [n for n in ORDER if ref.get(n) != d[n][1]]


def emit():
    try:
        d = parse()
        text = render(d)
    except Exception as ex:      # fail closed on ANYTHING, also a crash of the translator itself
        OUT.parent.mkdir(parents=True, exist_ok=True)
        OUT.write_text("(* GENERATED by translate/history.py: the source is NOT translatable, no definition emitted.\n   "
                       + repr(ex).replace("*)", "* )").replace("(*", "( *") + " *)\n")
        LAST.update(region=getattr(ex, "region", _REGION[0]), changed=None, error=repr(ex), defs=None)
        if isinstance(ex, Untranslatable):
            raise
        raise Untranslatable(f"translator crashed: {ex!r}", _REGION[0])
    OUT.parent.mkdir(parents=True, exist_ok=True)
    if not OUT.exists() or OUT.read_text() != text:
        OUT.write_text(text)
    ch = diff(d)
    LAST.update(region=None, changed=ch, error=None, defs=d)
    return dict(emitted=str(OUT), definitions=len(d), differs_from_reference=ch)


def generated_ok():
    return OUT.exists() and "Definition src_history" in OUT.read_text()


def regions_to_search():
    """tags the plug-in aims its search at: setitem / record / expand / record_iteration / init / rkeys / rsetitem / rgetattr; [] = nothing known"""
    if not LAST:
        try:
            emit()
        except Exception:
            pass
    if LAST.get("region"):
        r = LAST["region"]
        for tag, out in (("history:setitem", "setitem"), ("history:record_iteration", "record_iteration"), ("history:record", "record"),
                         ("history:expand", "expand"), ("history:init", "init"), ("result:keys", "rkeys"), ("result:setitem", "rsetitem"),
                         ("result:getattr", "rgetattr"), ("result:", "rany"), ("history:", "any")):
            if r.startswith(tag):
                return [out]
        return ["any", "rany"]
    if LAST.get("changed"):
        return sorted({REGION_OF[n] for n in LAST["changed"]})
    return []


if __name__ == "__main__":
    import sys
    if "--write-reference" in sys.argv:
        d = parse()
        REF.write_text(json.dumps({n: d[n][1] for n in ORDER}, indent=1) + "\n")
    print(json.dumps(emit(), indent=1, default=str))
    print(OUT.read_text())
