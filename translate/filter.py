"""Fail-closed translator:  pybads/function_logger/constraints_check.py `contraints_check`  and the feasibility checks of the
starting point in pybads/bads/bads.py (`BADS.__init__`, `BADS._init_optim_state_`)  ->  coq/gen/Src_filter.v

Re-read from VERIF_REPO (default /repo) on every run.  Code is located BY STRUCTURE (the module-level function named
`contraints_check`, class `BADS`, its two methods), never by line number.  Anything outside the whitelist below raises
Untranslatable; emit() then replaces the generated file by a comment, so Props/C17src.v / Props/C02src.v stop building.

A. contraints_check(P0, P1, P2, P3, P4, P5=True, P6=None)
   Parameters are identified by POSITION (roles: candidates U, lower bounds, upper bounds, tol_mesh, function_logger, proj,
   non_box_cons); the two defaults must be the literals True / None.  Locals live in an environment (name -> type), the output is
   a Gallina LET-CHAIN with one `let` per assignment, in source order, under the Python names - a renamed local is
   alpha-conversion.  Statements:
       name = E                                   | _, name = np.unique(A, axis=0, return_index=True)
       if proj / if not proj                      | if A.size > 0 (A a 2-D float array; read as "A has a row", D >= 1)
       if non_box_cons is not None / is None      | if function_logger is None: raise ...   (skipped: the logger is always passed)
       return name                                (last statement, the only return)
   An `if` must (re)bind exactly ONE name that is read later; its value becomes `if c then <chain> else <chain>`.
   Typed expressions (the NumPy reading is per row / per coordinate, Model/FilterSrc.v gives the meaning):
       float array  A ::= name | U | np.minimum(A, ub) | np.maximum(A, lb) | A[rowmask] | A[idx] | A[idx, :] | A.copy() | A / s
                          | function_logger.X | A[: z]
       rounded      R ::= np.round(A) | np.vstack((R, R))
       index array  I ::= name | np.sort(I) | I[I < len(R)]     (the mask must be over the SAME expression it selects from)
       elem mask    M ::= A > ub | A >= ub | A < ub | A <= ub | (the same against lb) | operands swapped (a > b read as b < a)
       row mask     B ::= np.any(M, axis=1) | np.all(M, axis=1) | B | B  | B & B | ~B | C <= k (any of < <= > >=; k a number)
       scalar       s ::= tol_mesh | name | s / number         (a float literal is the decimal it spells: 2.0 -> 2 # 1)
       integer      z ::= function_logger.X_max_idx | name | z + int
       images       X ::= function_logger.variable_transformer.inverse_transf(A)          values  C ::= non_box_cons(X)
   np.minimum against the LOWER bounds / np.maximum against the UPPER bounds raise (an infinite bound is `None` on its own side
   only).  STAGES: the top level of the body is cut after every statement that writes the returned variable; each stage is
   emitted as a function of exactly the parameters it reads (canonical order) and of the previous value; a local flowing from
   one stage into another raises.  `src_filter` is the composition, `src_stage_writes` the kind of every writing statement.

B. The starting point.  Every top-level statement of BADS.__init__ that stores self.x0, calls / passes the constraint function,
   calls self._init_optim_state_ or builds the FunctionLogger, and every statement of BADS._init_optim_state_ that mentions the
   local bound by `<u0> = force_to_grid(grid_units(self.x0, ...), ...)` or the constraint function, must be one of the events
   of Model/FilterSrc.v `start_ev` (shapes in `_init_event` / `_state_event`); they are emitted IN SOURCE ORDER as
   `src_init_events` / `src_state_events`.  A call of the target in __init__ raises.

C. Call sites and census.  Every module of the package outside pybads/testing is scanned: `contraints_check` may be defined only in
   constraints_check.py, imported only from pybads.function_logger[.constraints_check], never assigned / patched; every CALL is emitted
   as a `call_site` (file, enclosing function, the name the result is bound to, the argument texts, the last statement before the
   call that writes the candidate variable - the snap to the grid -, the statements after the call in the same block that write
   the result again: a sibling assignment in full, a store nested in a later compound statement as a mark), in file / source order, as `src_filter_calls`.  A call that is not `<name> = contraints_check(<same
   name>, <6 more positional arguments>)` raises.

`translate/filter_reference.json` holds the text generated from the source the proofs were written against; it is used ONLY to
say which definition differs (to aim the search), never to decide anything.
"""
from __future__ import annotations

import ast
import json
import sys
import warnings
from fractions import Fraction

from vlib import core


class Untranslatable(Exception):
    pass


REL_CC = "pybads/function_logger/constraints_check.py"
REL_BADS = "pybads/bads/bads.py"
OUT = core.GEN / "Src_filter.v"
REFERENCE = core.VERIF / "translate" / "filter_reference.json"
MARK = "(* GENERATED by translate/filter.py"
FUNC = "contraints_check"

ATOMS = ["inverse_transf", "U", "lb", "ub", "tol_mesh", "fl_X", "fl_X_max_idx", "proj", "non_box_cons"]
ATOM_TY = {"inverse_transf": "qrow -> XT", "U": "list qrow", "lb": "list bnd", "ub": "list bnd", "tol_mesh": "Q", "fl_X": "list qrow",
           "fl_X_max_idx": "Z", "proj": "bool", "non_box_cons": "option (XT -> Q)"}
COQ_RESERVED = {"in", "let", "fun", "match", "with", "end", "if", "then", "else", "as", "at", "return", "forall", "exists", "fix",
                "cofix", "for", "where", "using", "Type", "Prop", "Set", "map", "filter", "id", "fst", "snd", "hd", "tl", "Some", "None",
                "Z", "Q", "XT", "true", "false", "nil", "cons", "app"}
CMP = {ast.Lt: "CLt", ast.LtE: "CLe", ast.Gt: "CGt", ast.GtE: "CGe"}
FLIP = {"CLt": "CGt", "CLe": "CGe", "CGt": "CLt", "CGe": "CLe"}


def bad(msg, node=None):
    where = ""
    if node is not None:
        try:
            where = ": `" + ast.unparse(node)[:140].replace("\n", " ") + "`"
        except Exception:
            where = ""
    raise Untranslatable(msg + where)


def dump(n):
    return ast.dump(n, annotate_fields=False, include_attributes=False).replace("Store()", "Load()")


def parse_quiet(text):
    with warnings.catch_warnings():
        warnings.simplefilter("ignore")
        return ast.parse(text)


def dotted(n):
    if isinstance(n, ast.Name):
        return n.id
    if isinstance(n, ast.Attribute):
        b = dotted(n.value)
        return None if b is None else b + "." + n.attr
    return None


def is_np(n, name):
    return isinstance(n, ast.Attribute) and isinstance(n.value, ast.Name) and n.value.id == "np" and n.attr == name


def body_wo_doc(fn):
    b = fn.body
    if b and isinstance(b[0], ast.Expr) and isinstance(b[0].value, ast.Constant) and isinstance(b[0].value.value, str):
        b = b[1:]
    return b


def loads(nodes):
    out = set()
    for s in nodes:
        for n in ast.walk(s):
            if isinstance(n, ast.Name) and isinstance(n.ctx, ast.Load):
                out.add(n.id)
    return out


def number(n):
    """a numeric literal as the decimal it spells -> Fraction, or None"""
    if isinstance(n, ast.UnaryOp) and isinstance(n.op, ast.USub):
        v = number(n.operand)
        return None if v is None else -v
    if isinstance(n, ast.Constant) and type(n.value) in (int, float):
        try:
            return Fraction(repr(n.value)) if type(n.value) is float else Fraction(n.value)
        except (ValueError, OverflowError):
            return None
    return None


def cq(fr):
    return f"({fr.numerator} # {fr.denominator})"


# =========================================================================== A. contraints_check


class Chain:
    """a block translated to a list of (name, term) lets"""

    def __init__(self):
        self.lets = []


class FilterTranslator:
    def __init__(self, fn):
        self.fn = fn
        a = fn.args
        if a.vararg or a.kwarg or a.kwonlyargs or a.posonlyargs or fn.decorator_list:
            bad("signature of contraints_check: *args / **kwargs / keyword-only / decorators are outside the whitelist")
        if len(a.args) != 7:
            bad(f"contraints_check takes {len(a.args)} parameters, the model reads 7 (U, lb, ub, tol_mesh, function_logger, proj, non_box_cons)")
        if len(a.defaults) != 2 or dump(a.defaults[0]) != dump(ast.parse("True").body[0].value) or dump(a.defaults[1]) != dump(ast.parse("None").body[0].value):
            bad("defaults of contraints_check are no longer (proj=True, non_box_cons=None)")
        names = [x.arg for x in a.args]
        if len(set(names)) != 7:
            bad("duplicate parameter names")
        self.pU, self.plb, self.pub, self.ptol, self.pfl, self.pproj, self.pcons = names
        self.used_atoms = None

    # ---- environment: name -> (type, coq name)
    def fresh_env(self):
        return {self.pU: ("qarr", "U"), self.plb: ("lo", "lb"), self.pub: ("hi", "ub"), self.ptol: ("q", "tol_mesh"),
                self.pfl: ("logger", None), self.pproj: ("bool", "proj"), self.pcons: ("optcons", "non_box_cons")}

    def coqname(self, pyname):
        n = pyname
        if n in ATOMS or n in COQ_RESERVED or not n.isidentifier() or n.startswith("src_") or n.startswith("model_") or n.startswith("np_"):
            n = "v_" + n
        return n

    def use(self, atom):
        self.atoms.add(atom)
        return atom

    # ---- expressions: returns (type, coq term)
    def expr(self, n, env):
        if isinstance(n, ast.Name):
            if n.id not in env:
                bad(f"name `{n.id}` is read before it is bound (or is bound only inside a branch)", n)
            ty, cn = env[n.id]
            if ty in ("dead",):
                bad(f"`{n.id}` (the array of unique rows returned by np.unique) is used: only the index is modelled", n)
            if ty == "logger":
                bad("the function logger itself is used as a value", n)
            if cn in ATOMS:
                self.use(cn)
            return ty, cn
        v = number(n)
        if v is not None:
            return "num", cq(v)
        if isinstance(n, ast.Attribute):
            d = dotted(n)
            if d == self.pfl + ".X" and env.get(self.pfl, ("",))[0] == "logger":
                return "qarr", self.use("fl_X")
            if d == self.pfl + ".X_max_idx" and env.get(self.pfl, ("",))[0] == "logger":
                return "z", self.use("fl_X_max_idx")
            bad("attribute outside the whitelist", n)
        if isinstance(n, ast.BinOp):
            if isinstance(n.op, ast.Div):
                lt, l = self.expr(n.left, env)
                rt, r = self.expr(n.right, env)
                if lt == "qarr" and rt == "q":
                    return "qarr", f"(np_div {l} {r})"
                if lt == "q" and rt == "num":
                    return "q", f"(q_div {l} {r})"
                bad(f"division {lt} / {rt} is outside the whitelist", n)
            if isinstance(n.op, ast.Add):
                lt, l = self.expr(n.left, env)
                k = number(n.right)
                if lt == "z" and k is not None and k.denominator == 1:
                    return "z", f"({l} + {k.numerator})"
                bad("addition outside the whitelist (only <int> + <int literal>)", n)
            if isinstance(n.op, (ast.BitOr, ast.BitAnd)):
                lt, l = self.expr(n.left, env)
                rt, r = self.expr(n.right, env)
                if lt == rt == "rmask":
                    return "rmask", f"({'mask_or' if isinstance(n.op, ast.BitOr) else 'mask_and'} {l} {r})"
                bad(f"| / & of {lt} and {rt}", n)
            bad("binary operator outside the whitelist", n)
        if isinstance(n, ast.UnaryOp) and isinstance(n.op, ast.Invert):
            t, e = self.expr(n.operand, env)
            if t == "rmask":
                return "rmask", f"(mask_not {e})"
            bad(f"~ of {t}", n)
        if isinstance(n, ast.Compare):
            if len(n.ops) != 1 or type(n.ops[0]) not in CMP:
                bad("comparison outside the whitelist", n)
            op = CMP[type(n.ops[0])]
            # idx < len(R)
            rt_len = self.length_of(n.comparators[0], env)
            if rt_len is not None:
                lt, l = self.expr(n.left, env)
                if lt == "idx" and op == "CLt":
                    return "imask:" + dump(n.left), f"(idx_lt {l} {rt_len})"
                bad("comparison with a length outside the whitelist (only <index array> < len(<array>))", n)
            lt, l = self.expr(n.left, env)
            rt, r = self.expr(n.comparators[0], env)
            if lt == "qarr" and rt in ("hi", "lo"):
                return "emask", f"(np_cmp_{rt} {op} {l} {r})"
            if lt in ("hi", "lo") and rt == "qarr":
                return "emask", f"(np_cmp_{lt} {FLIP[op]} {r} {l})"
            if lt == "carr" and rt == "num":
                return "rmask", f"(vals_cmp {op} {l} {r})"
            if lt == "num" and rt == "carr":
                return "rmask", f"(vals_cmp {FLIP[op]} {r} {l})"
            bad(f"comparison of {lt} with {rt} is outside the whitelist", n)
        if isinstance(n, ast.Subscript):
            at, a = self.expr(n.value, env)
            sl = n.slice
            if isinstance(sl, ast.Slice):
                if sl.lower is not None or sl.step is not None or sl.upper is None:
                    bad("slice outside the whitelist (only A[: stop])", n)
                zt, z = self.expr(sl.upper, env)
                if at == "qarr" and zt == "z":
                    return "qarr", f"(py_prefix {z} {a})"
                bad(f"slice of {at} by {zt}", n)
            if isinstance(sl, ast.Tuple):
                if not (len(sl.elts) == 2 and isinstance(sl.elts[1], ast.Slice) and sl.elts[1].lower is None and sl.elts[1].upper is None
                        and sl.elts[1].step is None):
                    bad("subscript tuple outside the whitelist (only A[I, :])", n)
                sl = sl.elts[0]
            it, i = self.expr(sl, env)
            if at == "qarr" and it == "rmask":
                return "qarr", f"(take_mask {a} {i})"
            if at == "qarr" and it == "idx":
                return "qarr", f"(take_idx {a} {i})"
            if at == "idx" and it.startswith("imask:"):
                if it != "imask:" + dump(n.value):
                    bad("an index array is selected by a mask computed from a DIFFERENT array", n)
                return "idx", f"(take_mask {a} {i})"
            bad(f"subscript {at}[{it.split(':')[0]}] is outside the whitelist", n)
        if isinstance(n, ast.Call):
            f = n.func
            kw = {k.arg: k.value for k in n.keywords}
            if None in kw:
                bad("**kwargs in a call", n)
            if isinstance(f, ast.Attribute) and f.attr == "copy" and not n.args and not kw:
                t, e = self.expr(f.value, env)
                if t in ("qarr", "idx"):
                    return t, e
                bad(f".copy() of {t}", n)
            if is_np(f, "minimum") or is_np(f, "maximum"):
                if len(n.args) != 2 or kw:
                    bad("np.minimum / np.maximum with other than two positional arguments (out= / where= are outside the whitelist)", n)
                (t1, e1), (t2, e2) = self.expr(n.args[0], env), self.expr(n.args[1], env)
                if t2 == "qarr" and t1 in ("hi", "lo"):
                    (t1, e1), (t2, e2) = (t2, e2), (t1, e1)
                want = "hi" if f.attr == "minimum" else "lo"
                if t1 == "qarr" and t2 == want:
                    return "qarr", f"(np_{f.attr}_{want} {e1} {e2})"
                bad(f"np.{f.attr} of {t1} and {t2}: only np.minimum(<array>, <upper bounds>) / np.maximum(<array>, <lower bounds>) are modelled", n)
            if is_np(f, "any") or is_np(f, "all"):
                if len(n.args) != 1 or set(kw) != {"axis"} or number(kw["axis"]) != 1:
                    bad("np.any / np.all without axis=1", n)
                t, e = self.expr(n.args[0], env)
                if t == "emask":
                    return "rmask", f"(np_{f.attr}_axis1 {e})"
                bad(f"np.{f.attr} of {t}", n)
            if is_np(f, "round"):
                if len(n.args) != 1 or kw:
                    bad("np.round with decimals / out", n)
                t, e = self.expr(n.args[0], env)
                if t == "qarr":
                    return "zarr", f"(np_round {e})"
                bad(f"np.round of {t}", n)
            if is_np(f, "vstack"):
                if len(n.args) != 1 or kw or not isinstance(n.args[0], (ast.Tuple, ast.List)) or len(n.args[0].elts) != 2:
                    bad("np.vstack of other than a pair", n)
                (t1, e1), (t2, e2) = [self.expr(x, env) for x in n.args[0].elts]
                if t1 == t2 == "zarr":
                    return "zarr", f"(np_vstack {e1} {e2})"
                bad(f"np.vstack of {t1} and {t2}", n)
            if is_np(f, "sort"):
                if len(n.args) != 1 or kw:
                    bad("np.sort with axis / kind", n)
                t, e = self.expr(n.args[0], env)
                if t == "idx":
                    return "idx", f"(np_sort_idx {e})"
                bad(f"np.sort of {t}", n)
            if dotted(f) == self.pfl + ".variable_transformer.inverse_transf" and env.get(self.pfl, ("",))[0] == "logger":
                if len(n.args) != 1 or kw:
                    bad("inverse_transf with other than one argument", n)
                t, e = self.expr(n.args[0], env)
                if t == "qarr":
                    return "xarr", f"(map {self.use('inverse_transf')} {e})"
                bad(f"inverse_transf of {t}", n)
            if isinstance(f, ast.Name) and env.get(f.id, ("",))[0] == "cons":
                if len(n.args) != 1 or kw:
                    bad("non_box_cons with other than one argument", n)
                t, e = self.expr(n.args[0], env)
                if t == "xarr":
                    return "carr", f"(map {env[f.id][1]} {e})"
                bad(f"non_box_cons applied to {t}: the constraint is a function of the ORIGINAL-space image inverse_transf(<rows>)", n)
            if isinstance(f, ast.Name) and env.get(f.id, ("",))[0] == "optcons":
                bad("non_box_cons is called where it may be None", n)
            bad("call outside the whitelist", n)
        bad("expression outside the whitelist", n)

    def length_of(self, n, env):
        if isinstance(n, ast.Call) and isinstance(n.func, ast.Name) and n.func.id == "len" and "len" not in env and len(n.args) == 1 and not n.keywords:
            t, e = self.expr(n.args[0], env)
            if t in ("zarr", "qarr", "idx"):
                return f"(np_len {e})"
            bad(f"len of {t}", n)
        return None

    # ---- conditions: returns (kind, coq, swap)
    def cond(self, t, env):
        swap = False
        if isinstance(t, ast.UnaryOp) and isinstance(t.op, ast.Not):
            swap, t = True, t.operand
        if isinstance(t, ast.Name) and env.get(t.id, ("",))[0] == "bool":
            self.use("proj")
            return "proj", "proj", swap, "if proj"
        if isinstance(t, ast.Compare) and len(t.ops) == 1 and isinstance(t.ops[0], (ast.Is, ast.IsNot)) and \
                isinstance(t.comparators[0], ast.Constant) and t.comparators[0].value is None and isinstance(t.left, ast.Name):
            ty = env.get(t.left.id, ("",))[0]
            if isinstance(t.ops[0], ast.Is):
                swap = not swap
            if ty == "optcons":
                self.use("non_box_cons")
                return "cons", t.left.id, swap, "if non_box_cons is not None"
            if ty == "logger":
                return "logger", None, swap, "if function_logger is not None"
            bad(f"`is None` test of {ty or 'an unknown name'}", t)
        if isinstance(t, ast.Compare) and len(t.ops) == 1 and not swap:
            l, r, op = t.left, t.comparators[0], type(t.ops[0])
            if op is ast.Lt:
                l, r, op = r, l, ast.Gt
            if op is ast.Gt and number(r) == 0 and isinstance(l, ast.Attribute) and l.attr == "size":
                ty, e = self.expr(l.value, env)
                if ty == "qarr":
                    return "size", f"np_nonempty {e}", False, ("if R.size > 0" if isinstance(l.value, ast.Name) and l.value.id == self.result else "if <other>.size > 0")
        bad("condition outside the whitelist", t)

    # ---- blocks
    def block(self, stmts, env, later, top=False):
        """translate statements; returns list of lets [(coqname, term)], mutating env.  `later` = names loaded after the block."""
        lets = []
        for i, st in enumerate(stmts):
            after = loads(stmts[i + 1:]) | later
            if top:
                self.stage_hook_before(st, env)
            if isinstance(st, ast.Expr) and isinstance(st.value, ast.Constant) and isinstance(st.value.value, str):
                continue
            if isinstance(st, ast.Assign):
                if len(st.targets) != 1:
                    bad("chained assignment", st)
                tg = st.targets[0]
                if isinstance(tg, ast.Name):
                    ty, e = self.expr(st.value, env)
                    if ty in ("num",):
                        ty = "q"
                    if ty.startswith("imask") or ty in ("hi", "lo", "logger", "optcons", "cons", "bool", "emask"):
                        bad(f"a local of type {ty.split(':')[0]} is outside the whitelist", st)
                    cn = self.coqname(tg.id)
                    env[tg.id] = (ty, cn)
                    lets.append((cn, e))
                    self.wrote(tg.id, "assign", top)
                elif isinstance(tg, ast.Tuple) and len(tg.elts) == 2 and all(isinstance(x, ast.Name) for x in tg.elts):
                    v = st.value
                    kw = {k.arg: k.value for k in v.keywords} if isinstance(v, ast.Call) else None
                    if not (isinstance(v, ast.Call) and is_np(v.func, "unique") and len(v.args) == 1 and set(kw) == {"axis", "return_index"}
                            and number(kw["axis"]) == 0 and isinstance(kw["return_index"], ast.Constant) and kw["return_index"].value is True):
                        bad("tuple assignment outside the whitelist (only `_, idx = np.unique(A, axis=0, return_index=True)`)", st)
                    ty, e = self.expr(v.args[0], env)
                    if ty not in ("qarr", "zarr"):
                        bad(f"np.unique of {ty}", st)
                    a, b = tg.elts[0].id, tg.elts[1].id
                    if a == b:
                        bad("np.unique unpacked twice into one name", st)
                    env[a] = ("dead", None)
                    cn = self.coqname(b)
                    env[b] = ("idx", cn)
                    lets.append((cn, f"np_unique_index_{'q' if ty == 'qarr' else 'z'} {e}"))
                    self.wrote(a, "assign", top)
                    self.wrote(b, "assign", top)
                else:
                    bad("assignment target outside the whitelist (subscript / attribute stores are not modelled)", st)
            elif isinstance(st, ast.If):
                kind, c, swap, tag = self.cond(st.test, env)
                body, orelse = (st.orelse, st.body) if swap else (st.body, st.orelse)
                if kind == "logger":
                    # `if function_logger is None: raise ...` : the logger is always passed (standing assumption); pinned shape
                    if not (len(orelse) == 1 and isinstance(orelse[0], ast.Raise) and not body):
                        bad("a test of the function logger other than `if function_logger is None: raise ...`", st)
                    self.skipped.append("if function_logger is None: raise")
                    continue
                envA, envB = dict(env), dict(env)
                if kind == "cons":
                    envA[c] = ("cons", self.coqname(c) if c != self.pcons else "non_box_cons")
                letsA = self.block(body, envA, after)
                letsB = self.block(orelse, envB, after)
                assigned = []
                for nm in list(envA) + list(envB):
                    if nm not in assigned and (envA.get(nm) is not env.get(nm) or envB.get(nm) is not env.get(nm)):
                        assigned.append(nm)
                if kind == "cons":
                    assigned = [x for x in assigned if not (x == c and envB.get(c) is env.get(c) and envA[c][0] == "cons")]
                merged = [nm for nm in assigned if nm in after]
                if len(merged) != 1:
                    bad(f"an `if` must (re)bind exactly one name that is read afterwards; this one binds {merged or 'none'}", st.test)
                m = merged[0]
                for e_, side in ((envA, "then"), (envB, "else")):
                    if m not in e_:
                        bad(f"`{m}` is bound only in one arm of the `if` and not before it", st.test)
                if envA[m][0] != envB[m][0]:
                    bad(f"`{m}` has different types in the two arms ({envA[m][0]} / {envB[m][0]})", st.test)

                def chain(ls, final):
                    return "".join(f"let {n_} := {t_} in " for n_, t_ in ls) + final
                ta, tb = chain(letsA, envA[m][1]), chain(letsB, envB[m][1])
                cn = self.coqname(m)
                if kind == "cons":
                    term = f"match non_box_cons with Some {envA[c][1]} => {ta} | None => {tb} end"
                else:
                    term = f"if {c} then {ta} else {tb}"
                for nm in assigned:
                    if nm != m:
                        env[nm] = ("dead", None) if nm not in env else env[nm]
                        if envA.get(nm) is not envB.get(nm):
                            env.pop(nm, None)
                env[m] = (envA[m][0], cn)
                lets.append((cn, term))
                self.wrote(m, tag, top)
            elif isinstance(st, ast.Return):
                if not top or i != len(stmts) - 1:
                    bad("return elsewhere than as the last statement of the body", st)
            elif isinstance(st, ast.Pass):
                continue
            else:
                bad("statement outside the whitelist", st)
        return lets

    # ---- stages
    def wrote(self, name, tag, top):
        if top and name == self.result:
            self.cur_write = tag

    def stage_hook_before(self, st, env):
        pass

    def run(self):
        body = body_wo_doc(self.fn)
        rets = [n for n in ast.walk(self.fn) if isinstance(n, ast.Return)]
        if len(rets) != 1 or not body or body[-1] is not rets[0] or not isinstance(rets[0].value, ast.Name):
            bad("contraints_check must end in its only `return <name>`")
        for n in ast.walk(self.fn):
            if isinstance(n, (ast.FunctionDef, ast.Lambda, ast.ClassDef, ast.Global, ast.Nonlocal, ast.Try, ast.With, ast.For, ast.While, ast.NamedExpr,
                              ast.AugAssign, ast.AnnAssign, ast.Delete, ast.Yield, ast.YieldFrom, ast.Await, ast.ListComp, ast.GeneratorExp,
                              ast.Import, ast.ImportFrom)) and n is not self.fn:
                bad(f"{type(n).__name__} inside contraints_check is outside the whitelist", n if not isinstance(n, (ast.Try, ast.With, ast.For, ast.While)) else None)
        self.result = rets[0].value.id
        self.skipped = []
        env = self.fresh_env()
        stages = []
        group = []
        stmts = body[:-1]
        for i, st in enumerate(stmts):
            group.append(st)
            writes = any(isinstance(n, ast.Name) and isinstance(n.ctx, ast.Store) and n.id == self.result for n in ast.walk(st))
            if writes:
                stages.append(group)
                group = []
        if group:
            bad("statements after the last write of the returned variable", group[0])
        if not stages:
            bad("the returned variable is never written")
        out = []
        defined_before = set()           # locals bound in earlier stages (other than the result)
        for k, grp in enumerate(stages):
            self.atoms = set()
            self.cur_write = None
            later = {self.result}
            env_k = self.fresh_env()
            if k > 0:
                env_k[self.result] = (out[-1]["type"], self.coqname(self.result))
            # a local of an earlier stage read here: not in env_k -> "read before it is bound"
            lets = self.block(grp, env_k, later, top=True)
            if self.result not in env_k or env_k[self.result][0] != "qarr":
                bad(f"stage {k + 1} does not leave a 2-D float array in the returned variable")
            reads_prev = k > 0 and self.result in self.free_reads(grp)
            if k > 0 and not reads_prev:
                bad(f"stage {k + 1} overwrites the returned variable without reading it: the earlier stages are dead code", grp[0])
            if self.cur_write is None:
                bad(f"stage {k + 1}: no top-level write of the returned variable", grp[-1])
            atoms = [a for a in ATOMS if a in self.atoms]
            out.append(dict(lets=lets, atoms=atoms, type="qarr", write=self.cur_write, final=env_k[self.result][1], prev=k > 0))
        return out

    def free_reads(self, grp):
        """names read in the group before being bound at the top level (approximation used only for the dead-stage test)"""
        bound, reads = set(), set()
        for st in grp:
            for n in ast.walk(st):
                if isinstance(n, ast.Name) and isinstance(n.ctx, ast.Load) and n.id not in bound:
                    reads.add(n.id)
            if isinstance(st, ast.Assign):
                for t in st.targets:
                    for n in ast.walk(t):
                        if isinstance(n, ast.Name) and isinstance(n.ctx, ast.Store):
                            bound.add(n.id)
        return reads


def load_filter():
    src = (core.REPO / REL_CC).read_text()
    mod = parse_quiet(src)
    fns = [n for n in ast.walk(mod) if isinstance(n, (ast.FunctionDef, ast.AsyncFunctionDef)) and n.name == FUNC]
    if len(fns) != 1 or fns[0] not in mod.body or not isinstance(fns[0], ast.FunctionDef):
        bad(f"{REL_CC}: expected exactly one module-level `def {FUNC}`")
    np_ok = False
    for st in mod.body:
        if st is fns[0]:
            continue
        if isinstance(st, ast.Import):
            for a in st.names:
                if (a.asname or a.name) == "np":
                    if a.name != "numpy":
                        bad("`np` is not numpy", st)
                    np_ok = True
                if (a.asname or a.name.split(".")[0]) in (FUNC, "len"):
                    bad("an import rebinds a name the translation relies on", st)
        elif isinstance(st, ast.ImportFrom):
            for a in st.names:
                if (a.asname or a.name) in ("np", FUNC, "len") or a.name == "*":
                    bad("an import rebinds a name the translation relies on", st)
        elif isinstance(st, ast.Expr) and isinstance(st.value, ast.Constant) and isinstance(st.value.value, str):
            continue
        else:
            bad(f"{REL_CC}: module-level statement outside the whitelist (only imports and the function)", st)
    if not np_ok:
        bad("`import numpy as np` not found")
    tr = FilterTranslator(fns[0])
    stages = tr.run()
    return tr, stages


def render_stage(k, s, result_cn):
    implicit = "{XT : Type} " if ("inverse_transf" in s["atoms"] or "non_box_cons" in s["atoms"]) else ""
    params = "".join(f"({a} : {ATOM_TY[a]}) " for a in s["atoms"])
    if s["prev"]:
        params += f"({result_cn} : list qrow) "
    body = "".join(f"  let {n} := {t} in\n" for n, t in s["lets"]) + f"  {s['final']}"
    return f"Definition src_stage{k} {implicit}{params}: list qrow :=\n{body}.\n"


def render_filter(tr, stages):
    rc = tr.coqname(tr.result)
    parts = [render_stage(k + 1, s, rc) for k, s in enumerate(stages)]
    allatoms = [a for a in ATOMS if any(a in s["atoms"] for s in stages)]
    # the whole function always takes every parameter of the model, in canonical order
    params = "".join(f"({a} : {ATOM_TY[a]}) " for a in ATOMS)
    body = ""
    for k, s in enumerate(stages):
        args = " ".join(s["atoms"] + ([rc] if s["prev"] else []))
        body += f"  let {rc} := src_stage{k + 1} {args} in\n"
    parts.append(f"Definition src_filter {{XT : Type}} {params}: list qrow :=\n{body}  {rc}.\n")
    parts.append("Definition src_stage_writes : list string := [" + "; ".join('"%s"' % s["write"] for s in stages) + "]%string.\n")
    return parts, allatoms


# =========================================================================== B. the starting point


def find_method(cls, name):
    ms = [n for n in cls.body if isinstance(n, ast.FunctionDef) and n.name == name]
    if len(ms) != 1 or ms[0].decorator_list:
        bad(f"expected exactly one undecorated method BADS.{name}")
    return ms[0]


def mentions(st, pred):
    return any(pred(n) for n in ast.walk(st))


def cons_check(test_parts, body, cons_names, u0name):
    """[guard, G(cons(ARG) CMP 0)] + body ending in raise -> EvConsCheck text"""
    if len(test_parts) != 2:
        bad("constraint test of the starting point: expected `<cons> is not None` and one comparison", test_parts[0])
    g, t = test_parts
    if not (isinstance(g, ast.Compare) and len(g.ops) == 1 and isinstance(g.ops[0], ast.IsNot) and dotted(g.left) in cons_names
            and isinstance(g.comparators[0], ast.Constant) and g.comparators[0].value is None):
        bad("guard of the starting point's constraint test is not `<cons> is not None`", g)
    aggk = "AggNone"
    if isinstance(t, ast.Call) and (is_np(t.func, "any") or is_np(t.func, "all")) and len(t.args) == 1 and not t.keywords:
        aggk = "AggAny" if t.func.attr == "any" else "AggAll"
        t = t.args[0]
    if not (isinstance(t, ast.Compare) and len(t.ops) == 1 and type(t.ops[0]) in CMP and number(t.comparators[0]) == 0):
        bad("the starting point's constraint test is not `<cons>(<point>) OP 0`", t)
    call = t.left
    if not (isinstance(call, ast.Call) and dotted(call.func) in cons_names and len(call.args) == 1 and not call.keywords):
        bad("the starting point's constraint test does not call the constraint function on one point", t)
    a = call.args[0]
    if dotted(a) == "self.x0":
        arg = "ArgX0"
    elif (u0name is not None and isinstance(a, ast.Call) and dotted(a.func) == "self.var_transf.inverse_transf" and len(a.args) == 1 and not a.keywords
          and isinstance(a.args[0], ast.Name) and a.args[0].id == u0name):
        arg = "ArgInvU0"
    else:
        bad("the constraint is evaluated at a point that is neither self.x0 nor self.var_transf.inverse_transf(<snapped start>)", a)
    exc = raise_class(body)
    return f'EvConsCheck {arg} {CMP[type(t.ops[0])]} {aggk} "{exc}"'


def raise_class(body):
    """body = logging calls then `raise Cls(...)`"""
    if not body or not isinstance(body[-1], ast.Raise) or body[-1].exc is None:
        bad("the test does not end in `raise <Class>(...)`", body[-1] if body else None)
    for st in body[:-1]:
        if not (isinstance(st, ast.Expr) and isinstance(st.value, ast.Call) and (dotted(st.value.func) or "").startswith("self.logger.")):
            bad("statement other than logging before the raise", st)
    e = body[-1].exc
    e = e.func if isinstance(e, ast.Call) else e
    if not isinstance(e, ast.Name):
        bad("raised class is not a plain name", body[-1])
    return e.id


def flatten_if(st):
    """`if A and B: body` or `if A: if B: body` (no else) -> ([A, B], body)"""
    if st.orelse:
        bad("`else` on a test of the starting point", st.test)
    if isinstance(st.test, ast.BoolOp) and isinstance(st.test.op, ast.And):
        return list(st.test.values), st.body
    if len(st.body) == 1 and isinstance(st.body[0], ast.If):
        inner_t, inner_b = flatten_if(st.body[0])
        return [st.test] + inner_t, inner_b
    return [st.test], st.body


def same(node, text):
    exp = ast.parse(text).body[0]
    if isinstance(exp, ast.Expr) and not isinstance(node, ast.stmt):
        exp = exp.value
    return dump(node) == dump(exp)


def init_events(init):
    a = init.args
    pnames = [x.arg for x in a.args] + [x.arg for x in a.kwonlyargs]
    if "non_box_cons" not in pnames or "fun" not in pnames:
        bad("BADS.__init__ has no parameter named non_box_cons / fun")
    cons_names = {"non_box_cons"}
    evs = []
    for st in body_wo_doc(init):
        if mentions(st, lambda n: isinstance(n, ast.Call) and isinstance(n.func, ast.Name) and n.func.id == "fun") or \
           mentions(st, lambda n: isinstance(n, ast.Call) and dotted(n.func) in ("self.fun", "self.function_logger")):
            bad("BADS.__init__ calls the target", st)
        stores_x0 = mentions(st, lambda n: isinstance(n, (ast.Attribute, ast.Subscript)) and isinstance(getattr(n, "ctx", None), ast.Store)
                             and (dotted(n) == "self.x0" or (isinstance(n, ast.Subscript) and dotted(n.value) == "self.x0")))
        uses_cons = mentions(st, lambda n: isinstance(n, ast.Name) and n.id == "non_box_cons") or \
            mentions(st, lambda n: dotted(n) == "self.non_box_cons")
        inits = mentions(st, lambda n: isinstance(n, ast.Call) and dotted(n.func) == "self._init_optim_state_")
        mk = mentions(st, lambda n: isinstance(n, ast.Call) and isinstance(n.func, ast.Name) and n.func.id == "FunctionLogger")
        if not (stores_x0 or uses_cons or inits or mk):
            if mentions(st, lambda n: isinstance(n, ast.Raise)) and mentions(st, lambda n: dotted(n) == "self.x0"):
                bad("a new test of self.x0 in BADS.__init__", st)
            continue
        if same(st, "self.non_box_cons = non_box_cons"):
            cons_names.add("self.non_box_cons")
            continue
        if isinstance(st, ast.Assign) and isinstance(st.targets[0], ast.Tuple) and isinstance(st.value, ast.Call) and \
                dotted(st.value.func) == "self._bounds_check_" and dotted(st.targets[0].elts[0]) == "self.x0" and not inits and not mk:
            evs.append("EvBoundsCheck")
            continue
        if isinstance(st, ast.If) and same(st.test, "not np.all(np.isfinite(self.x0))") and not st.orelse and not uses_cons and not inits and not mk:
            stores = [n for n in ast.walk(st) if isinstance(n, (ast.Attribute, ast.Subscript, ast.Name)) and isinstance(getattr(n, "ctx", None), ast.Store)]
            if len(stores) != 1 or dotted(stores[0]) != "self.x0" or not isinstance(st.body[0], ast.Assign) or \
                    dotted(st.body[0].value.func if isinstance(st.body[0].value, ast.Call) else None) != "np.random.uniform":
                bad("the random start block stores something other than self.x0 = np.random.uniform(...)", st)
            evs.append("EvRandomStart")
            continue
        if isinstance(st, ast.If) and uses_cons and not stores_x0 and not inits and not mk:
            parts, body = flatten_if(st)
            evs.append(cons_check(parts, body, cons_names, None))
            continue
        if same(st, "self.optim_state = self._init_optim_state_()"):
            evs.append("EvInitState")
            continue
        if isinstance(st, ast.Assign) and dotted(st.targets[0]) == "self.function_logger" and isinstance(st.value, ast.Call) and \
                isinstance(st.value.func, ast.Name) and st.value.func.id == "FunctionLogger" and not uses_cons and not inits:
            evs.append("EvMakeLogger")
            continue
        bad("BADS.__init__: statement touching the start / the constraint / the logger outside the whitelist", st)
    return evs


def state_events(fn):
    evs = []
    u0 = None
    cons_names = {"self.non_box_cons"}
    pending_store = False
    for st in body_wo_doc(fn):
        if u0 is None:
            if isinstance(st, ast.Assign) and len(st.targets) == 1 and isinstance(st.targets[0], ast.Name) and isinstance(st.value, ast.Call) and \
                    dotted(st.value.func) == "force_to_grid" and st.value.args and isinstance(st.value.args[0], ast.Call) and \
                    dotted(st.value.args[0].func) == "grid_units":
                u0 = st.targets[0].id
                if not same(st, f'{u0} = force_to_grid(grid_units(self.x0, self.var_transf, optim_state["scale"]), optim_state["search_mesh_size"])'):
                    bad("the snapped start is no longer force_to_grid(grid_units(self.x0, self.var_transf, scale), search_mesh_size)", st)
                evs.append("EvSnap")
                continue
            if mentions(st, lambda n: dotted(n) == "self.non_box_cons"):
                bad("_init_optim_state_ uses the constraint function before the start is snapped", st)
            continue
        m_u0 = mentions(st, lambda n: isinstance(n, ast.Name) and n.id == u0)
        m_c = mentions(st, lambda n: dotted(n) == "self.non_box_cons" or (isinstance(n, ast.Name) and n.id == "non_box_cons"))
        if not (m_u0 or m_c):
            continue
        if same(st, f'{u0}[{u0} < self.lower_bounds] = {u0}[{u0} < self.lower_bounds] + optim_state["search_mesh_size"]'):
            evs.append("EvPullLow")
        elif same(st, f'{u0}[{u0} > self.upper_bounds] = {u0}[{u0} > self.upper_bounds] - optim_state["search_mesh_size"]'):
            evs.append("EvPullHigh")
        elif isinstance(st, ast.If) and m_c:
            parts, body = flatten_if(st)
            evs.append(cons_check(parts, body, cons_names, u0))
        elif same(st, f'optim_state["u"] = {u0}'):
            evs.append("EvStoreU")
            pending_store = True
        elif same(st, f"self.u = {u0}.flatten().copy()"):
            if not pending_store or evs[-1] != "EvStoreU":
                bad("self.u is stored elsewhere than right after optim_state['u']", st)
        elif isinstance(st, ast.If) and same(st.test, f"np.any({u0} > self.upper_bounds) or np.any({u0} < self.lower_bounds)") and not st.orelse:
            evs.append(f'EvBoxTest "{raise_class(st.body)}"')
        else:
            bad("_init_optim_state_: statement touching the snapped start / the constraint outside the whitelist", st)
    if u0 is None:
        bad("_init_optim_state_: the snapped start `<u0> = force_to_grid(grid_units(self.x0, ...), ...)` was not found")
    return evs


def load_start():
    mod = parse_quiet((core.REPO / REL_BADS).read_text())
    cls = [n for n in mod.body if isinstance(n, ast.ClassDef) and n.name == "BADS"]
    if len(cls) != 1:
        bad("expected exactly one class BADS")
    # writer census: self.x0 and self.non_box_cons are stored only in __init__ (where every store must match an event / the pinned
    # `self.non_box_cons = non_box_cons`); no setattr / __dict__ access on them anywhere in the class
    init = find_method(cls[0], "__init__")
    for m in cls[0].body:
        for n in ast.walk(m):
            tgt = None
            if isinstance(n, (ast.Attribute, ast.Subscript)) and isinstance(getattr(n, "ctx", None), (ast.Store, ast.Del)):
                tgt = dotted(n) if isinstance(n, ast.Attribute) else dotted(n.value)
            if tgt in ("self.x0", "self.non_box_cons") and m is not init:
                bad(f"BADS.{getattr(m, 'name', '?')} stores {tgt}: the start / the constraint function are written only by __init__", n)
            if isinstance(n, ast.Constant) and n.value in ("x0", "non_box_cons") and not isinstance(m, ast.Expr):
                # the name as a string: setattr(self, "x0", ...), self.__dict__["x0"] - but not dictionary keys of results / options
                pass
            if isinstance(n, ast.Call) and isinstance(n.func, ast.Name) and n.func.id in ("setattr", "delattr") and len(n.args) >= 2 and \
                    isinstance(n.args[1], ast.Constant) and n.args[1].value in ("x0", "non_box_cons"):
                bad("setattr on the start / the constraint function", n)
    ncons = [n for n in ast.walk(init) if isinstance(n, ast.Attribute) and isinstance(n.ctx, ast.Store) and dotted(n) == "self.non_box_cons"]
    if len(ncons) != 1:
        bad(f"BADS.__init__ stores self.non_box_cons {len(ncons)} times (expected once: self.non_box_cons = non_box_cons)")
    return init_events(init), state_events(find_method(cls[0], "_init_optim_state_"))


# =========================================================================== C. call sites, census


def _text(node, limit=230):
    import hashlib
    t = " ".join(ast.unparse(node).split()).replace('"', "'")
    if len(t) > limit:
        t = t[:limit] + " ...#" + hashlib.sha1(dump(node).encode()).hexdigest()[:10]
    return t


def _stores(st, name):
    return any(isinstance(n, ast.Name) and isinstance(n.ctx, ast.Store) and n.id == name for n in ast.walk(st)) or \
        any(isinstance(n, ast.Subscript) and isinstance(n.ctx, ast.Store) and isinstance(n.value, ast.Name) and n.value.id == name for n in ast.walk(st))


def call_sites():
    pkg = core.REPO / "pybads"
    sites = []
    for path in sorted(pkg.rglob("*.py")):
        rel = str(path.relative_to(core.REPO))
        if rel.startswith("pybads/testing") or "__pycache__" in rel:
            continue
        text = path.read_text()
        if FUNC not in text:
            continue
        mod = parse_quiet(text)
        for n in ast.walk(mod):
            if isinstance(n, (ast.FunctionDef, ast.AsyncFunctionDef, ast.ClassDef)) and n.name == FUNC and rel != REL_CC:
                bad(f"{rel}: a second definition of {FUNC}")
            if isinstance(n, (ast.Name, ast.Attribute)) and isinstance(getattr(n, "ctx", None), (ast.Store, ast.Del)) and \
                    (getattr(n, "id", None) == FUNC or getattr(n, "attr", None) == FUNC):
                bad(f"{rel}: {FUNC} is assigned / patched", n)
            if isinstance(n, ast.arg) and n.arg == FUNC:
                bad(f"{rel}: a parameter shadows {FUNC}")
            if isinstance(n, ast.Constant) and isinstance(n.value, str) and n.value == FUNC:
                bad(f"{rel}: the name {FUNC} as a string (getattr / setattr / patching?)")
            if isinstance(n, ast.ImportFrom):
                for a in n.names:
                    if a.name == FUNC or a.asname == FUNC:
                        src = ("." * n.level) + (n.module or "")
                        if a.asname not in (None, FUNC) or src not in ("pybads.function_logger", "pybads.function_logger.constraints_check", ".constraints_check"):
                            bad(f"{rel}: {FUNC} imported from `{src}` / under another name", n)
            if isinstance(n, ast.Import):
                for a in n.names:
                    if (a.asname or a.name) == FUNC:
                        bad(f"{rel}: a module imported under the name {FUNC}", n)
        # calls, with their enclosing function and block

        def walk_block(stmts, qual):
            for i, st in enumerate(stmts):
                if isinstance(st, (ast.FunctionDef, ast.AsyncFunctionDef, ast.ClassDef)):
                    walk_block(st.body, (qual + "." if qual else "") + st.name)
                    continue
                calls_here = [c for c in ast.walk(st) if isinstance(c, ast.Call) and (dotted(c.func) or "").split(".")[-1] == FUNC]
                direct = isinstance(st, ast.Assign) and isinstance(st.value, ast.Call) and st.value in calls_here
                if direct:
                    c = st.value
                    if len(calls_here) != 1 or not isinstance(c.func, ast.Name) or c.keywords or len(c.args) != 7 or len(st.targets) != 1 or \
                            not isinstance(st.targets[0], ast.Name) or not isinstance(c.args[0], ast.Name) or c.args[0].id != st.targets[0].id:
                        bad(f"{rel}: a call of {FUNC} that is not `<name> = {FUNC}(<same name>, <6 more positional arguments>)`", st)
                    v = st.targets[0].id
                    before = "(none in this block)"
                    for prev in reversed(stmts[:i]):
                        if _stores(prev, v):
                            before = _text(prev)
                            break
                    # the plain store statements (at any depth) after the call, in this block, that write the variable again
                    # (a sibling statement in full; a store nested in a later compound statement - the next round of a loop - only as a mark)
                    after = []
                    for x in stmts[i + 1:]:
                        if isinstance(x, (ast.Assign, ast.AugAssign, ast.AnnAssign)):
                            if _stores(x, v):
                                after.append(_text(x))
                        elif _stores(x, v):
                            after.append(f"nested in a later `{type(x).__name__.lower()}`: {v} = ...")
                    sites.append(dict(file=rel, fun=qual, target=v, args=[_text(a, 120) for a in c.args[1:]], before=before, after=after))
                    continue
                for blk in ("body", "orelse", "finalbody"):
                    if isinstance(getattr(st, blk, None), list) and getattr(st, blk) and isinstance(getattr(st, blk)[0], ast.stmt):
                        walk_block(getattr(st, blk), qual)
                for h in getattr(st, "handlers", []) or []:
                    walk_block(h.body, qual)
                nested = sum(1 for blk in ("body", "orelse", "finalbody") for x in (getattr(st, blk, None) or []) if isinstance(x, ast.stmt)
                             for c in ast.walk(x) if isinstance(c, ast.Call) and (dotted(c.func) or "").split(".")[-1] == FUNC)
                nested += sum(1 for h in (getattr(st, "handlers", []) or []) for x in h.body for c in ast.walk(x)
                              if isinstance(c, ast.Call) and (dotted(c.func) or "").split(".")[-1] == FUNC)
                if len(calls_here) != nested:
                    bad(f"{rel}: {FUNC} is called inside an expression / a statement that is not a plain assignment", st)
        if rel != REL_CC:
            walk_block(mod.body, "")
    if not sites:
        bad(f"no call of {FUNC} found in the package")
    return sites


def render_calls(sites):
    def cs(x):
        return '"' + x + '"'

    def cl(xs):
        return "[" + "; ".join(cs(x) for x in xs) + "]"
    items = [f"  {{| cs_file := {cs(s_['file'])}; cs_fun := {cs(s_['fun'])}; cs_target := {cs(s_['target'])};\n     cs_args := {cl(s_['args'])};\n"
             f"     cs_last_write_before := {cs(s_['before'])};\n     cs_writes_after := {cl(s_['after'])} |}}" for s_ in sites]
    return "Definition src_filter_calls : list call_site :=\n  [\n" + ";\n".join(items) + "\n  ]%string.\n"


# =========================================================================== output


def generate():
    tr, stages = load_filter()
    parts, _ = render_filter(tr, stages)
    ie, se = load_start()
    sites = call_sites()
    head = (MARK + " from " + REL_CC + " and " + REL_BADS + " on every ./check run - do not edit, never committed.\n"
            "   Meaning of every primitive: Model/FilterSrc.v.  Skipped (pinned shapes): " + ("; ".join(tr.skipped) or "nothing") + " *)\n"
            "From Coq Require Import ZArith QArith List Bool String.\nFrom PV Require Import Model.Filter Model.FilterSrc.\n"
            "Import ListNotations.\nOpen Scope Z_scope.\n\n")
    ev = ("Definition src_init_events : list start_ev :=\n  [" + "; ".join(ie) + "]%string.\n"
          "Definition src_state_events : list start_ev :=\n  [" + "; ".join(se) + "]%string.\n")
    defs = {f"src_stage{k + 1}": p for k, p in enumerate(parts[:-2])}
    defs["src_filter"] = parts[-2]
    defs["src_stage_writes"] = parts[-1]
    defs["src_init_events"] = "; ".join(ie)
    defs["src_state_events"] = "; ".join(se)
    defs["src_filter_calls"] = render_calls(sites)
    return head + "\n".join(parts) + "\n" + ev + "\n" + defs["src_filter_calls"], defs


def emit():
    try:
        text, defs = generate()
    except Exception as ex:
        core.write_if_changed(OUT, "(* translate/filter.py could not translate the current source, no definition emitted:\n   %s *)\n"
                              % str(ex).replace("*)", "* )").replace("(*", "( *"))
        raise
    changed = core.write_if_changed(OUT, text)
    return dict(out=str(OUT.relative_to(core.VERIF)), changed=changed, differs_from_reference=diff(defs))


def current():
    """(defs or None, exception or None) without writing anything"""
    try:
        return generate()[1], None
    except Exception as ex:   # noqa: BLE001
        return None, ex


def diff(defs):
    """names of the generated definitions whose text differs from the reference (aims the search; decides nothing)"""
    if not REFERENCE.exists() or defs is None:
        return []
    ref = json.loads(REFERENCE.read_text())
    return [k for k in sorted(set(ref) | set(defs)) if ref.get(k) != defs.get(k)]


if __name__ == "__main__":
    if "--write-reference" in sys.argv:
        REFERENCE.write_text(json.dumps(generate()[1], indent=1, sort_keys=True) + "\n")
        print("reference written")
    else:
        print(emit())
        print(OUT.read_text())
