"""Fail-closed translator: pybads/variable_transformer/variables_transformer.py  ->  coq/gen/Src_transform.v

Re-reads the source of VERIF_REPO (default /repo) on every run.  Statements are located BY STRUCTURE
(never by line number); every arithmetic fragment goes through a whitelisted expression grammar

    e ::= e + e | e - e | e * e | e / e | -e | name | int/float literal
        | np.log(e) | np.exp(e) | np.abs(e) | np.minimum(e, e) | np.maximum(e, e)
        | np.finfo(np.float64).max | (e == 0)            (indicator, as a summand)
        | maskindex(e, self.apply_log_t) | maskindex(e, ~self.apply_log_t) | f(e)  (f a translated lambda)
    rule ::= rule and rule | np.all(np.concatenate([self.B[:, i], ...]) > c) | (e >= c).item() | np.all(A <= B) ...

into one intermediate tree (nested tuples).  From that SAME tree come
  * the Gallina text of gen/Src_transform.v (per-coordinate definitions over R / Rbar), and
  * Python evaluators (float64 NumPy, 50-digit Decimal, exact Fraction) used by harness/comp_transform.py to
    validate the translator against the real VariableTransformer.
Everything that is not recognised raises Untranslatable: ./check then reports a broken tie (never a pass).
"""
from __future__ import annotations

import ast
import hashlib
import warnings
from decimal import Decimal, DivisionByZero, InvalidOperation, Overflow, getcontext
from fractions import Fraction

import numpy as np

from vlib import core


class Untranslatable(Exception):
    pass


REL_SRC = "pybads/variable_transformer/variables_transformer.py"
REL_BADS = "pybads/bads/bads.py"
OUT = core.GEN / "Src_transform.v"
FMAX_INT = (2 ** 53 - 1) * 2 ** 971          # np.finfo(np.float64).max, exactly
BOUNDS = ("lb", "ub", "plb", "pub")


def bad(msg, node=None):
    where = f" (line {getattr(node, 'lineno', '?')})" if node is not None else ""
    raise Untranslatable(msg + where)


def dump(n):
    # structural identity up to the Load/Store context of names
    return ast.dump(n, annotate_fields=False, include_attributes=False).replace("Store()", "Load()")


def parse_quiet(text):
    with warnings.catch_warnings():
        warnings.simplefilter("ignore")          # SyntaxWarning for escapes in the repo's docstrings
        return ast.parse(text)


def same(node, text):
    """node is structurally the statement / expression written in `text`"""
    exp = ast.parse(text).body[0]
    if isinstance(exp, ast.Expr) and not isinstance(node, ast.stmt):
        exp = exp.value
    return dump(node) == dump(exp)


def dotted(n):
    """Name / self.attr / np.x.y  ->  'a.b.c'   (None if not a pure dotted name)"""
    if isinstance(n, ast.Name):
        return n.id
    if isinstance(n, ast.Attribute):
        b = dotted(n.value)
        return None if b is None else b + "." + n.attr
    return None


# --------------------------------------------------------------------------- expression grammar -> IR


def is_fmax(n):
    return same(n, "np.finfo(np.float64).max")


def mask_polarity(n):
    """self.apply_log_t -> True ; ~self.apply_log_t -> False ; anything else: untranslatable"""
    if dotted(n) == "self.apply_log_t":
        return True
    if isinstance(n, ast.UnaryOp) and isinstance(n.op, ast.Invert) and dotted(n.operand) == "self.apply_log_t":
        return False
    bad("mask is neither self.apply_log_t nor ~self.apply_log_t: " + ast.unparse(n), n)


def tr(n, env, funs):
    """arithmetic expression -> IR.  env: source name -> IR variable; funs: callable name -> (coq_name, extra args)"""
    if isinstance(n, ast.Constant):
        v = n.value
        if isinstance(v, bool) or not isinstance(v, (int, float)):
            bad("literal not numeric: %r" % (v,), n)
        if isinstance(v, float) and not np.isfinite(v):
            bad("non-finite literal", n)
        return ("num", v)
    d = dotted(n)
    if d is not None and not isinstance(n, ast.Call):
        if d in env:
            return ("var", env[d])
        if is_fmax(n):
            return ("fmax",)
        bad("name not bound to a parameter of this fragment: " + d, n)
    if is_fmax(n):
        return ("fmax",)
    if isinstance(n, ast.UnaryOp) and isinstance(n.op, ast.USub):
        return ("neg", tr(n.operand, env, funs))
    if isinstance(n, ast.BinOp):
        ops = {ast.Add: "add", ast.Sub: "sub", ast.Mult: "mul", ast.Div: "div"}
        k = ops.get(type(n.op))
        if k is None:
            bad("operator not in the grammar: " + type(n.op).__name__, n)
        return (k, tr(n.left, env, funs), tr(n.right, env, funs))
    if isinstance(n, ast.Compare):
        if (len(n.ops) == 1 and isinstance(n.ops[0], ast.Eq) and isinstance(n.comparators[0], ast.Constant)
                and type(n.comparators[0].value) in (int, float) and n.comparators[0].value == 0):
            return ("ind0", tr(n.left, env, funs))
        bad("comparison other than `e == 0` inside arithmetic", n)
    if isinstance(n, ast.Call):
        if n.keywords:
            bad("keyword arguments", n)
        f = dotted(n.func)
        un = {"np.log": "log", "np.exp": "exp", "np.abs": "abs"}
        bi = {"np.minimum": "min", "np.maximum": "max"}
        if f in un:
            if len(n.args) != 1:
                bad(f + " arity", n)
            return (un[f], tr(n.args[0], env, funs))
        if f in bi:
            if len(n.args) != 2:
                bad(f + " arity", n)
            return (bi[f], tr(n.args[0], env, funs), tr(n.args[1], env, funs))
        if f == "maskindex":
            if len(n.args) != 2:
                bad("maskindex arity", n)
            return ("mask", tr(n.args[0], env, funs), mask_polarity(n.args[1]))
        if f in funs:
            if len(n.args) != 1:
                bad(f + " arity", n)
            return ("app", funs[f], tr(n.args[0], env, funs))
        bad("call not in the grammar: " + ast.unparse(n.func), n)
    bad("expression not in the grammar: " + type(n).__name__, n)


def walk_ir(t):
    yield t
    for c in t[1:]:
        if isinstance(c, tuple):
            yield from walk_ir(c)


def has(t, kind):
    return any(s[0] == kind for s in walk_ir(t))


def subst_first_log_arg(t):
    """zlog body: pull the argument of its single np.log out into its own definition"""
    found = []

    def go(u):
        if u[0] == "log":
            found.append(u[1])
            return ("log", ("app", "src_zlog_arg", ("var", "x")))
        return tuple(go(c) if isinstance(c, tuple) else c for c in u)
    out = go(t)
    if len(found) != 1:
        bad("zlog must contain exactly one np.log(...), found %d" % len(found))
    return out, found[0]


# --------------------------------------------------------------------------- IR -> Gallina

# how an ("app", name, arg) is printed: extra arguments that the callee takes after its first
APP_EXTRA = {"src_z_masked": ("l", None, "mu gamma"), "src_zlog_masked": ("l", None, "mu gamma"),
             "src_zlog_arg": ("", None, "")}


def coq_num(v):
    fr = Fraction(v)            # exact value of the literal as Python reads it (a float literal is a binary64)
    if fr.denominator == 1:
        return str(fr.numerator) if fr >= 0 else f"(- {-fr.numerator})"
    s = f"({abs(fr.numerator)} / {fr.denominator})"
    return s if fr > 0 else f"(- {s})"


def coq(t):
    k = t[0]
    if k == "num":
        return coq_num(t[1])
    if k == "var":
        return t[1]
    if k == "fmax":
        return "src_fmax"
    if k in ("add", "sub", "mul", "div"):
        return "(%s %s %s)" % (coq(t[1]), {"add": "+", "sub": "-", "mul": "*", "div": "/"}[k], coq(t[2]))
    if k == "neg":
        return "(- %s)" % coq(t[1])
    if k in ("log", "exp", "abs"):
        return "(%s %s)" % ({"log": "ln", "exp": "exp", "abs": "Rabs"}[k], coq(t[1]))
    if k in ("min", "max"):
        return "(%s %s %s)" % ({"min": "Rmin", "max": "Rmax"}[k], coq(t[1]), coq(t[2]))
    if k == "ind0":
        return "(src_ind0 %s)" % coq(t[1])
    if k == "mask":
        return "(src_maskindex %s %s)" % (coq(t[1]), "l" if t[2] else "(negb l)")
    if k == "app":
        pre, _, post = APP_EXTRA[t[1]]
        return "(" + " ".join(x for x in (t[1], pre, coq(t[2]), post) if x) + ")"
    bad("internal: no Gallina for " + k)


def coq_gen(t):
    """clamp expressions, generic in the carrier (instantiated at R and at the extended reals)"""
    k = t[0]
    if k == "var":
        return t[1]
    if k in ("min", "max"):
        return "(t%s %s %s)" % (k, coq_gen(t[1]), coq_gen(t[2]))
    if k == "app":
        return "(%s %s)" % (t[1], coq_gen(t[2]))
    bad("clamp expression uses more than minimum/maximum of its arguments: " + k)


# --------------------------------------------------------------------------- IR -> Python evaluators


class Ops:
    """one instance per arithmetic: 'float' (NumPy binary64, element-wise on arrays) or 'dec' (50-digit Decimal)"""

    def __init__(self, mode):
        self.mode = mode
        if mode == "dec":
            c = getcontext()
            c.prec = 50
            for tname in (InvalidOperation, DivisionByZero, Overflow):
                c.traps[tname] = False          # NaN / Infinity instead of exceptions, like NumPy

    def num(self, v):
        if self.mode == "float":
            return v
        return Decimal(v) if isinstance(v, int) else Decimal(Fraction(v).numerator) / Decimal(Fraction(v).denominator)

    def fmax(self):
        return float(FMAX_INT) if self.mode == "float" else Decimal(FMAX_INT)

    def log(self, a):
        if self.mode == "float":
            return np.log(a)
        if a.is_infinite():
            return a
        return a.ln()

    def exp(self, a):
        return np.exp(a) if self.mode == "float" else a.exp()

    def abs(self, a):
        return np.abs(a) if self.mode == "float" else abs(a)

    def min(self, a, b):
        return np.minimum(a, b) if self.mode == "float" else min(a, b)

    def max(self, a, b):
        return np.maximum(a, b) if self.mode == "float" else max(a, b)

    def ind0(self, a):
        return (a == 0) if self.mode == "float" else Decimal(1 if a == 0 else 0)

    def mask(self, v, keep):
        """keep: boolean (array) — True where the entry is kept, False where maskindex writes 0"""
        if self.mode == "float":
            return np.where(keep, v, 0.0)
        return v if keep else Decimal(0)


def ev(t, env, ops, defs):
    """evaluate IR t; env: IR variable -> value (env['l'] = flag (array)); defs: name -> (params, body) for 'app'"""
    k = t[0]
    if k == "num":
        return ops.num(t[1])
    if k == "var":
        return env[t[1]]
    if k == "fmax":
        return ops.fmax()
    if k == "add":
        return ev(t[1], env, ops, defs) + ev(t[2], env, ops, defs)
    if k == "sub":
        return ev(t[1], env, ops, defs) - ev(t[2], env, ops, defs)
    if k == "mul":
        return ev(t[1], env, ops, defs) * ev(t[2], env, ops, defs)
    if k == "div":
        return ev(t[1], env, ops, defs) / ev(t[2], env, ops, defs)
    if k == "neg":
        return -ev(t[1], env, ops, defs)
    if k in ("log", "exp", "abs", "ind0"):
        return getattr(ops, k)(ev(t[1], env, ops, defs))
    if k in ("min", "max"):
        return getattr(ops, k)(ev(t[1], env, ops, defs), ev(t[2], env, ops, defs))
    if k == "mask":
        lflag = env["l"]
        keep = (lflag if t[2] else ~lflag) if ops.mode == "float" else (bool(lflag) == t[2])
        return ops.mask(ev(t[1], env, ops, defs), keep)
    if k == "app":
        params, body = defs[t[1]]
        e2 = dict(env)
        e2[params[0]] = ev(t[2], env, ops, defs)
        return ev(body, e2, ops, defs)
    raise Untranslatable("internal: no evaluator for " + k)


# --------------------------------------------------------------------------- rule grammar

CMP = {ast.Gt: ">", ast.GtE: ">=", ast.Lt: "<", ast.LtE: "<="}


def tr_rule(n, env):
    """boolean rule over the bounds -> IR: ('and', [..]) | ('allcmp', op, [vars], c) | ('cmp', op, e, e)"""
    if isinstance(n, ast.BoolOp) and isinstance(n.op, ast.And):
        return ("and", [tr_rule(v, env) for v in n.values])
    if isinstance(n, ast.Call) and dotted(n.func) == "np.all" and len(n.args) == 1 and not n.keywords:
        c = n.args[0]
        if isinstance(c, ast.Compare) and len(c.ops) == 1 and type(c.ops[0]) in CMP:
            lhs, rhs = c.left, c.comparators[0]
            if isinstance(lhs, ast.Call) and dotted(lhs.func) == "np.concatenate":
                if len(lhs.args) != 1 or lhs.keywords or not isinstance(lhs.args[0], ast.List) or not isinstance(rhs, ast.Constant):
                    bad("np.all(np.concatenate([...]) > c) expected", n)
                vs = []
                for e in lhs.args[0].elts:
                    t = tr(e, env, {})
                    if t[0] != "var":
                        bad("element of np.concatenate is not a bound", e)
                    vs.append(t[1])
                return ("allcmp", CMP[type(c.ops[0])], vs, tr(rhs, env, {}))
            return ("cmp", CMP[type(c.ops[0])], tr(lhs, env, {}), tr(rhs, env, {}))
        bad("np.all(...) of something that is not a single comparison", n)
    if (isinstance(n, ast.Call) and isinstance(n.func, ast.Attribute) and n.func.attr == "item" and not n.args
            and not n.keywords):
        return tr_rule(n.func.value, env)
    if isinstance(n, ast.Compare) and len(n.ops) == 1 and type(n.ops[0]) in CMP:
        return ("cmp", CMP[type(n.ops[0])], tr(n.left, env, {}), tr(n.comparators[0], env, {}))
    bad("boolean expression not in the rule grammar: " + ast.unparse(n), n)


RBAR_VARS = {"lb", "ub"}          # hard bounds may be infinite; plausible bounds are checked finite by the source


def coq_rule(t):
    k = t[0]
    if k == "and":
        return "(" + " /\\ ".join(coq_rule(s) for s in t[1]) + ")"
    if k == "allcmp":
        op, vs, c = t[1], t[2], t[3]
        return "(" + " /\\ ".join(coq_xcmp(op, ("var", v), c) for v in vs) + ")"
    if k == "cmp":
        return coq_xcmp(t[1], t[2], t[3])
    bad("internal rule kind " + k)


def coq_xcmp(op, a, b):
    """a op b ; if a hard bound is involved compare as extended reals"""
    def isx(u):
        return any(s[0] == "var" and s[1] in RBAR_VARS for s in walk_ir(u))

    def xr(u):
        if u[0] == "var" and u[1] in RBAR_VARS:
            return u[1]
        if isx(u):
            bad("arithmetic on a possibly infinite hard bound inside a rule")
        return "(Finite %s)" % coq(u)
    if isx(a) or isx(b):
        rel = {"<": ("Rbar_lt", 0), "<=": ("Rbar_le", 0), ">": ("Rbar_lt", 1), ">=": ("Rbar_le", 1)}[op]
        x, y = (xr(a), xr(b)) if rel[1] == 0 else (xr(b), xr(a))
        return "(%s %s %s)" % (rel[0], x, y)
    return "(%s %s %s)" % (coq(a), op, coq(b))


def ev_rule(t, env, arith="frac"):
    """evaluate a rule on concrete bounds.  arith='frac': exact rationals (bounds given as Fractions / +-inf floats);
    arith='float': binary64 as NumPy does it."""
    k = t[0]
    if k == "and":
        return all(ev_rule(s, env, arith) for s in t[1])
    if k == "allcmp":
        c = ev_arith(t[3], env, arith)
        return all(cmp(t[1], env[v], c) for v in t[2])
    if k == "cmp":
        return cmp(t[1], ev_arith(t[2], env, arith), ev_arith(t[3], env, arith))
    raise Untranslatable("internal rule kind " + k)


def cmp(op, a, b):
    return {"<": a < b, "<=": a <= b, ">": a > b, ">=": a >= b}[op]


def ev_arith(t, env, arith):
    k = t[0]
    if k == "num":
        return Fraction(t[1]) if arith == "frac" else t[1]
    if k == "var":
        return env[t[1]]
    a = ev_arith(t[1], env, arith)
    if k == "neg":
        return -a
    b = ev_arith(t[2], env, arith)
    if k == "add":
        return a + b
    if k == "sub":
        return a - b
    if k == "mul":
        return a * b
    if k == "div":
        return a / b
    raise Untranslatable("rule arithmetic: " + k)


# --------------------------------------------------------------------------- locating the fragments


def body_wo_doc(fn):
    b = fn.body
    if b and isinstance(b[0], ast.Expr) and isinstance(b[0].value, ast.Constant) and isinstance(b[0].value.value, str):
        b = b[1:]
    return b


def find_one(stmts, pred, what):
    hits = [(i, s) for i, s in enumerate(stmts) if pred(s)]
    if len(hits) != 1:
        bad(f"expected exactly one `{what}`, found {len(hits)}")
    return hits[0]


def assign_to(name):
    def p(s):
        return isinstance(s, ast.Assign) and len(s.targets) == 1 and dotted(s.targets[0]) == name
    return p


def lam(s, param, what):
    v = s.value
    if not (isinstance(v, ast.Lambda) and [a.arg for a in v.args.args] == [param] and not v.args.defaults
            and not v.args.vararg and not v.args.kwarg and not v.args.kwonlyargs and not v.args.posonlyargs):
        bad(f"{what} is not `lambda {param}: ...`", s)
    return v.body


def assigned_names(fn):
    """every name / self.attr that is (re)bound or written through a subscript anywhere inside fn"""
    out = []
    for n in ast.walk(fn):
        tg = []
        if isinstance(n, ast.Assign):
            tg = n.targets
        elif isinstance(n, (ast.AugAssign, ast.AnnAssign)):
            tg = [n.target]
        elif isinstance(n, (ast.For, ast.AsyncFor)):
            tg = [n.target]
        elif isinstance(n, ast.NamedExpr):
            tg = [n.target]
        elif isinstance(n, (ast.With, ast.AsyncWith)):
            tg = [i.optional_vars for i in n.items if i.optional_vars is not None]
        elif isinstance(n, (ast.Delete,)):
            tg = n.targets
        elif isinstance(n, (ast.Global, ast.Nonlocal, ast.Import, ast.ImportFrom, ast.FunctionDef, ast.ClassDef)) and n is not fn:
            bad("unexpected statement inside " + fn.name + ": " + type(n).__name__, n)
        for t in tg:
            for e in (t.elts if isinstance(t, (ast.Tuple, ast.List)) else [t]):
                while isinstance(e, (ast.Subscript, ast.Starred)):
                    e = e.value
                d = dotted(e)
                if d is None:
                    bad("assignment target not understood", n)
                out.append(d)
    return out


class Model:
    """the intermediate trees + evaluators; built by load()"""


def load(repo=None) -> Model:
    repo = core.REPO if repo is None else repo
    path = repo / REL_SRC
    text = path.read_text()
    mod = parse_quiet(text)
    m = Model()
    m.sha = hashlib.sha256(text.encode()).hexdigest()[:16]
    m.path = str(path)

    # ---- module level: maskindex
    fns = [s for s in mod.body if isinstance(s, ast.FunctionDef) and s.name == "maskindex"]
    if len(fns) != 1:
        bad("module-level def maskindex not found exactly once")
    mk = fns[0]
    if [a.arg for a in mk.args.args] != ["vector", "bool_index"] or mk.decorator_list:
        bad("maskindex signature", mk)
    b = body_wo_doc(mk)
    if not (len(b) == 3 and same(b[0], "result = vector.copy()")
            and same(b[1], "result[:, ~bool_index.flatten()] = 0") and same(b[2], "return result")):
        bad("maskindex body is not `result = vector.copy(); result[:, ~bool_index.flatten()] = 0; return result`", mk)
    for s in mod.body:
        if isinstance(s, (ast.Assign, ast.AugAssign)) and any(dotted(t) in ("maskindex", "np") for t in getattr(s, "targets", [s])):
            bad("module rebinding maskindex / np", s)

    cls = [s for s in mod.body if isinstance(s, ast.ClassDef) and s.name == "VariableTransformer"]
    if len(cls) != 1:
        bad("class VariableTransformer not found exactly once")
    cls = cls[0]
    meth = {s.name: s for s in cls.body if isinstance(s, ast.FunctionDef)}
    for name in ("__init__", "__create_hypercube_trans__", "__call__", "inverse_transf"):
        if name not in meth:
            bad("method missing: " + name)
        if meth[name].decorator_list:
            bad("decorated method: " + name, meth[name])
    extra = set(meth) - {"__init__", "__create_hypercube_trans__", "__call__", "inverse_transf"}
    tracked = {"self." + a for a in ("lb", "ub", "plb", "pub", "orig_lb", "orig_ub", "orig_plb", "orig_pub",
                                     "g", "ginv", "z", "zlog", "apply_log_t", "D")}
    for name in extra:
        if tracked & set(assigned_names(meth[name])):
            bad("method %s writes transformer state" % name, meth[name])

    # ---- __init__: which values the attributes hold when the maps are built and used
    init = meth["__init__"]
    ib = body_wo_doc(init)
    for t in ("self.orig_ub = ub.copy()", "self.orig_lb = lb.copy()", "self.orig_plb = plb.copy()",
              "self.orig_pub = pub.copy()", "self.ub = ub", "self.lb = lb", "self.plb = plb", "self.pub = pub"):
        find_one(ib, lambda s, t=t: same(s, t), t)
    i_tuple, _ = find_one(ib, lambda s: same(
        s, "(self.lb, self.ub, self.plb, self.pub, self.g, self.ginv, self.z, self.zlog) = self.__create_hypercube_trans__()"),
        "(self.lb, self.ub, self.plb, self.pub, self.g, self.ginv, self.z, self.zlog) = self.__create_hypercube_trans__()")
    if i_tuple != len(ib) - 1:
        bad("__init__ continues after building the transform", ib[-1])
    cnt = {}
    for d in assigned_names(init):
        cnt[d] = cnt.get(d, 0) + 1
    for a in ("lb", "ub", "plb", "pub"):
        if cnt.get("self." + a) != 2 or cnt.get("self.orig_" + a) != 1:
            bad("__init__ assigns self.%s / self.orig_%s an unexpected number of times" % (a, a), init)
    for a in ("g", "ginv", "z", "zlog"):
        if cnt.get("self." + a) != 1:
            bad("__init__ assigns self.%s more than once" % a, init)

    # ---- __create_hypercube_trans__
    fn = meth["__create_hypercube_trans__"]
    fb = body_wo_doc(fn)
    allowed_targets = {"self.apply_log_t", "self.lb", "self.ub", "self.plb", "self.pub", "check_idx_log_t", "i",
                       "mu", "gamma", "z", "zlog", "apply_log_t_sum", "g", "ginv",
                       "lbtest", "ubtest", "eps", "numeps", "tests"}
    cnt = {}
    for d in assigned_names(fn):
        if d not in allowed_targets:
            bad("__create_hypercube_trans__ assigns an unexpected name: " + d, fn)
        cnt[d] = cnt.get(d, 0) + 1
    expect_cnt = {"self.apply_log_t": 2, "self.lb": 1, "self.ub": 1, "self.plb": 1, "self.pub": 1, "mu": 1, "gamma": 1,
                  "z": 1, "zlog": 1, "g": 3, "ginv": 3, "apply_log_t_sum": 1, "check_idx_log_t": 1, "i": 1}
    for k, v in expect_cnt.items():
        if cnt.get(k) != v:
            bad(f"__create_hypercube_trans__ assigns {k} {cnt.get(k)} times, expected {v}", fn)

    pos = {}
    # finiteness of the plausible bounds (lets plb, pub be real numbers in the model)
    pos["finite"], _ = find_one(fb, lambda s: isinstance(s, ast.If) and same(
        s.test, "not (np.all(np.isfinite(np.concatenate([self.plb, self.pub]))))") and len(s.body) == 1
        and isinstance(s.body[0], ast.Raise) and not s.orelse, "if not np.all(np.isfinite(plb, pub)): raise")
    # order check
    def is_order(s):
        return (isinstance(s, ast.If) and isinstance(s.test, ast.UnaryOp) and isinstance(s.test.op, ast.Not)
                and len(s.body) == 1 and isinstance(s.body[0], ast.Raise) and not s.orelse
                and isinstance(s.test.operand, ast.BoolOp))
    pos["order"], s_order = find_one(fb, is_order, "if not (np.all(lb <= plb) and ...): raise")
    benv = {"self." + b: b for b in BOUNDS}
    m.order = tr_rule(s_order.test.operand, benv)

    pos["idx"], _ = find_one(fb, lambda s: same(
        s, "check_idx_log_t = np.argwhere(np.isnan(self.apply_log_t.flatten()))"), "check_idx_log_t = np.argwhere(np.isnan(...))")
    pos["for"], s_for = find_one(fb, lambda s: isinstance(s, ast.For), "for i in check_idx_log_t")
    if not (dotted(s_for.target) == "i" and dotted(s_for.iter) == "check_idx_log_t" and not s_for.orelse
            and len(s_for.body) == 1 and isinstance(s_for.body[0], ast.Assign) and len(s_for.body[0].targets) == 1
            and same(s_for.body[0].targets[0], "self.apply_log_t[:, i]")):
        bad("log-flag loop is not `for i in check_idx_log_t: self.apply_log_t[:, i] = <rule>`", s_for)
    ienv = {}
    # self.B[:, i] -> B   (match structurally)
    rule_src = s_for.body[0].value

    class Sub(ast.NodeTransformer):
        def visit_Subscript(self, n):
            for bnd in BOUNDS:
                if same(n, f"self.{bnd}[:, i]"):
                    return ast.copy_location(ast.Name(id="__b_" + bnd, ctx=ast.Load()), n)
            bad("subscript in the log rule is not self.<bound>[:, i]: " + ast.unparse(n), n)
    rule_ast = Sub().visit(ast.parse(ast.unparse(rule_src), mode="eval").body)
    m.rule = tr_rule(rule_ast, {"__b_" + b: b for b in BOUNDS})
    pos["astype"], _ = find_one(fb, lambda s: same(s, "self.apply_log_t = self.apply_log_t.astype(bool)"),
                                "self.apply_log_t = self.apply_log_t.astype(bool)")

    # bounds of flagged coordinates replaced by a function of themselves (their logs)
    pre = {}
    for bnd in BOUNDS:
        def is_pre(s, bnd=bnd):
            return (isinstance(s, ast.Assign) and len(s.targets) == 1 and same(s.targets[0], f"self.{bnd}[self.apply_log_t]"))
        pos["pre_" + bnd], s_pre = find_one(fb, is_pre, f"self.{bnd}[self.apply_log_t] = ...")

        class Sub2(ast.NodeTransformer):
            def visit_Subscript(self, n, bnd=bnd):
                if same(n, f"self.{bnd}[self.apply_log_t]"):
                    return ast.copy_location(ast.Name(id="__b", ctx=ast.Load()), n)
                bad("log replacement reads something other than its own masked bound: " + ast.unparse(n), n)
        pre[bnd] = tr(Sub2().visit(ast.parse(ast.unparse(s_pre.value), mode="eval").body), {"__b": "b"}, {})
    if len({repr(v) for v in pre.values()}) != 1:
        bad("the four bounds are not pre-transformed by the same expression")
    m.pre = pre["lb"]

    pos["mu"], s_mu = find_one(fb, assign_to("mu"), "mu = ...")
    pos["gamma"], s_ga = find_one(fb, assign_to("gamma"), "gamma = ...")
    penv = {"self.plb": "plb", "self.pub": "pub"}
    m.mu = tr(s_mu.value, penv, {})
    m.gamma = tr(s_ga.value, penv, {})

    pos["z"], s_z = find_one(fb, assign_to("z"), "z = lambda x: ...")
    pos["zlog"], s_zl = find_one(fb, assign_to("zlog"), "zlog = lambda x: ...")
    xenv = {"x": "x", "mu": "mu", "gamma": "gamma"}
    zt = tr(lam(s_z, "x", "z"), xenv, {})
    zlt = tr(lam(s_zl, "x", "zlog"), xenv, {})
    for nm, t in (("z", zt), ("zlog", zlt)):
        if t[0] != "mask" or has(t[1], "mask"):
            bad(nm + " is not maskindex(<expression>, mask)")
    m.z, m.z_pol = zt[1], zt[2]
    m.zlog, m.zlog_arg = subst_first_log_arg(zlt[1])
    m.zlog_pol = zlt[2]
    if has(m.z, "log") or has(m.z, "exp"):
        bad("z (the affine part) contains log/exp")

    pos["sum"], _ = find_one(fb, lambda s: same(s, "apply_log_t_sum = np.sum(self.apply_log_t)"),
                             "apply_log_t_sum = np.sum(self.apply_log_t)")
    pos["if"], s_if = find_one(fb, lambda s: isinstance(s, ast.If) and same(s.test, "apply_log_t_sum == 0"),
                               "if apply_log_t_sum == 0")
    if not (len(s_if.orelse) == 1 and isinstance(s_if.orelse[0], ast.If)
            and same(s_if.orelse[0].test, "apply_log_t_sum == self.D") and s_if.orelse[0].orelse):
        bad("arms are not `if sum == 0 / elif sum == self.D / else`", s_if)
    arms = [s_if.body, s_if.orelse[0].body, s_if.orelse[0].orelse]
    gfun = {"z": "src_z_masked", "zlog": "src_zlog_masked"}
    yenv = {"y": "y", "mu": "mu", "gamma": "gamma"}
    m.g_arm, m.ginv_arm = [], []
    for k, arm in enumerate(arms):
        if len(arm) != 2:
            bad(f"arm {k} does not consist of exactly `g = ...; ginv = ...`", arm[0])
        _, sg = find_one(arm, assign_to("g"), f"g = lambda x: ... (arm {k})")
        _, si = find_one(arm, assign_to("ginv"), f"ginv = lambda y: ... (arm {k})")
        gt = tr(lam(sg, "x", "g"), {"x": "x"}, gfun)
        for s in walk_ir(gt):
            if s[0] not in ("add", "app", "var") or (s[0] == "app" and s[2] != ("var", "x")):
                bad(f"g (arm {k}) is not a sum of z(x) / zlog(x)", sg)
        m.g_arm.append(gt)
        m.ginv_arm.append(tr(lam(si, "y", "ginv"), yenv, {}))
    # arms 0 and 1: no masks; arm 2: maskindex(lin, ~flags) + maskindex(log, flags) with complementary masks
    for k in (0, 1):
        if has(m.ginv_arm[k], "mask"):
            bad(f"ginv of arm {k} uses maskindex")
    if has(m.ginv_arm[0], "log") or has(m.ginv_arm[0], "exp"):
        bad("ginv of the all-linear arm contains log/exp")
    g2 = m.ginv_arm[2]
    if not (g2[0] == "add" and g2[1][0] == "mask" and g2[2][0] == "mask" and not has(g2[1][1], "mask") and not has(g2[2][1], "mask")):
        bad("ginv of the mixed arm is not maskindex(.., m) + maskindex(.., m')")
    if g2[1][2] == g2[2][2]:
        bad("mixed arm of ginv: the two masks are not complementary")
    lin, log = (g2[1], g2[2]) if g2[1][2] is False else (g2[2], g2[1])
    if has(lin[1], "exp") or not has(log[1], "exp"):
        bad("mixed arm of ginv: the affine formula is not under ~self.apply_log_t / the exp formula not under self.apply_log_t")
    m.ginv_mixed_lin, m.ginv_mixed_log = lin[1], log[1]
    nm = lambda part: "src_ginv_mixed_lin" if part is lin else "src_ginv_mixed_log"
    m.ginv_arm2 = ("add", ("mask", ("appy", nm(g2[1])), g2[1][2]), ("mask", ("appy", nm(g2[2])), g2[2][2]))
    # g of the mixed arm: z(x) + zlog(x) with complementary masks, affine part under ~flags
    used = sorted(s[1] for s in walk_ir(m.g_arm[2]) if s[0] == "app")
    if used != ["src_z_masked", "src_zlog_masked"] or m.z_pol is not False or m.zlog_pol is not True:
        bad("mixed arm of g: masks are not complementary (z under ~self.apply_log_t, zlog under self.apply_log_t)")

    # self-test region: only named for the record (the tolerance it uses)
    numeps = [s for s in fb if assign_to("numeps")(s)]
    m.numeps = ast.unparse(numeps[0].value) if numeps else None
    pos["ret"], s_ret = find_one(fb, lambda s: isinstance(s, ast.Return), "return")
    if not same(s_ret, "return (g(self.orig_lb), g(self.orig_ub), g(self.orig_plb), g(self.orig_pub), g, ginv, z, zlog)"):
        bad("return value is not (g(orig_lb), g(orig_ub), g(orig_plb), g(orig_pub), g, ginv, z, zlog)", s_ret)
    order = ["finite", "order", "idx", "for", "astype", "pre_lb", "pre_ub", "pre_plb", "pre_pub", "mu", "gamma", "z",
             "zlog", "sum", "if", "ret"]
    seq = [pos[k] for k in order]
    pre_block = sorted(pos["pre_" + b] for b in BOUNDS)
    if not (seq[:5] == sorted(seq[:5]) and max(seq[:5]) < pre_block[0] and pre_block[-1] < min(pos["mu"], pos["gamma"])
            and max(pos["mu"], pos["gamma"]) < min(pos["z"], pos["zlog"]) and max(pos["z"], pos["zlog"]) < pos["sum"] < pos["if"] < pos["ret"]
            and pos["ret"] == len(fb) - 1):
        bad("statements of __create_hypercube_trans__ are not in the expected order")

    # ---- __call__ / inverse_transf
    cb = body_wo_doc(meth["__call__"])
    if [a.arg for a in meth["__call__"].args.args] != ["self", "input"]:
        bad("__call__ signature")
    if not (len(cb) == 3 and same(cb[0], "y = self.g(input)") and assign_to("y")(cb[1]) and same(cb[2], "return y")):
        bad("__call__ is not `y = self.g(input); y = <clamp>; return y`", meth["__call__"])
    m.clamp_fwd = tr(cb[1].value, {"y": "y", "self.lb": "lb", "self.ub": "ub"}, {})
    vb = body_wo_doc(meth["inverse_transf"])
    if [a.arg for a in meth["inverse_transf"].args.args] != ["self", "input"]:
        bad("inverse_transf signature")
    if not (len(vb) == 4 and same(vb[0], "x = self.ginv(input)") and assign_to("x")(vb[1])
            and same(vb[2], "x = x.reshape(input.shape)") and same(vb[3], "return x")):
        bad("inverse_transf is not `x = self.ginv(input); x = <clamp>; x = x.reshape(input.shape); return x`", meth["inverse_transf"])
    m.clamp_inv = tr(vb[1].value, {"x": "x", "self.orig_lb": "lb", "self.orig_ub": "ub"}, {})
    for nm, t in (("__call__", m.clamp_fwd), ("inverse_transf", m.clamp_inv)):
        for s in walk_ir(t):
            if s[0] not in ("min", "max", "var"):
                bad(nm + ": clamp uses something other than np.minimum / np.maximum of the value and the bounds")
    for name in ("__call__", "inverse_transf"):
        if tracked & set(assigned_names(meth[name])):
            bad(name + " writes transformer state", meth[name])

    # ---- bads.py: what BADS passes as apply_log_t
    m.bads = load_bads(repo)
    m.defs = {
        "src_zlog_arg": (("x",), m.zlog_arg),
        "src_z_masked": (("x",), ("mask", m.z, m.z_pol)),
        "src_zlog_masked": (("x",), ("mask", m.zlog, m.zlog_pol)),
    }
    return m


def load_bads(repo):
    """`if self.options["nonlinear_scaling"]: logflag = np.full((1, self.D), np.nan) ... else: logflag = np.zeros((1, self.D))`
    followed by VariableTransformer(self.D, <bounds>, logflag)"""
    mod = parse_quiet((repo / REL_BADS).read_text())
    hits = []
    for fn in ast.walk(mod):
        if not isinstance(fn, ast.FunctionDef):
            continue
        for i, s in enumerate(fn.body):
            if isinstance(s, ast.If) and same(s.test, 'self.options["nonlinear_scaling"]'):
                hits.append((fn, i, s))
    if len(hits) != 1:
        bad("bads.py: expected exactly one `if self.options[\"nonlinear_scaling\"]:`, found %d" % len(hits))
    fn, i, s = hits[0]
    if not (s.body and same(s.body[0], "logflag = np.full((1, self.D), np.nan)") and len(s.orelse) == 1
            and same(s.orelse[0], "logflag = np.zeros((1, self.D))")):
        bad("bads.py: logflag is not NaN (decide) when nonlinear_scaling else zeros", s)
    rest = s.body[1:]
    if rest:
        ok = (len(rest) == 2 and same(rest[0], 'periodic_vars = self.options["periodic_vars"]')
              and isinstance(rest[1], ast.If) and len(rest[1].body) == 1 and same(rest[1].body[0], "logflag[:, periodic_vars] = 0")
              and not rest[1].orelse)
        guard = any(isinstance(p, ast.If) and same(p.test, 'self.options["periodic_vars"] is not None')
                    and len(p.body) == 1 and isinstance(p.body[0], ast.Raise) for p in fn.body[:i])
        if not (ok and guard):
            bad("bads.py: unexpected statements in the nonlinear_scaling branch", s)
    after = fn.body[i + 1:]
    calls = [c for st in after for c in ast.walk(st) if isinstance(c, ast.Call) and dotted(c.func) == "VariableTransformer"]
    if len(calls) != 1 or not same(calls[0], "VariableTransformer(self.D, self.lower_bounds, self.upper_bounds, "
                                             "self.plausible_lower_bounds, self.plausible_upper_bounds, logflag)"):
        bad("bads.py: VariableTransformer is not built from (D, lb, ub, plb, pub, logflag)")
    for st in after:
        if st is not None and any(isinstance(c, ast.Call) and dotted(c.func) == "VariableTransformer" for c in ast.walk(st)):
            break
        if "logflag" in assigned_names_stmt(st):
            bad("bads.py: logflag modified before the transformer is built", st)
    return dict(function=fn.name)


def assigned_names_stmt(st):
    wrapper = ast.FunctionDef(name="_w", args=ast.arguments(posonlyargs=[], args=[], kwonlyargs=[], kw_defaults=[], defaults=[]),
                              body=[st], decorator_list=[], lineno=0, col_offset=0)
    try:
        return assigned_names(wrapper)
    except Untranslatable:
        return ["logflag"]


# --------------------------------------------------------------------------- Gallina text


def coq_appy(t):
    """mixed-arm ginv with its two inner formulas named"""
    if t[0] == "add":
        return "(%s + %s)" % (coq_appy(t[1]), coq_appy(t[2]))
    if t[0] == "mask":
        return "(src_maskindex (%s y mu gamma) %s)" % (t[1][1], "l" if t[2] else "(negb l)")
    bad("internal: mixed arm shape")


def render(m: Model) -> str:
    L = []
    A = L.append
    A("(* GENERATED on every run by translate/transform.py — do not edit, not committed.")
    A(f"   source: {REL_SRC}  sha256[:16]={m.sha}")
    A("   Per-coordinate reading of the NumPy expressions (every operation involved is element-wise);")
    A("   l is the coordinate's entry of self.apply_log_t.  Statement order checked by the translator:")
    A("   flags decided -> bounds of flagged coordinates replaced (src_bound_pre) -> mu, gamma -> z, zlog -> arms. *)")
    A("From Coq Require Import Reals Bool.")
    A("From Coquelicot Require Import Rbar.")
    A("Open Scope R_scope.")
    A("")
    A("(* np.finfo(np.float64).max = (2^53 - 1) * 2^971 *)")
    A(f"Definition src_fmax : R := {FMAX_INT}.")
    A("(* (x == 0) used as a number *)")
    A("Definition src_ind0 (x : R) : R := if Req_EM_T x 0 then 1 else 0.")
    A("(* def maskindex(vector, bool_index): result = vector.copy(); result[:, ~bool_index.flatten()] = 0; return result *)")
    A("Definition src_maskindex (v : R) (b : bool) : R := if negb b then 0 else v.")
    A("")
    A(f"(* bads.py ({m.bads['function']}): logflag = NaN (decide by the rule) if options['nonlinear_scaling'] else zeros *)")
    A("Definition src_bads_logflag (nonlinear_scaling : bool) : option bool := if nonlinear_scaling then None else Some false.")
    A("(* constructor's order check on the bounds as given *)")
    A("Definition src_order_check (lb : Rbar) (plb pub : R) (ub : Rbar) : Prop :=")
    A("  " + coq_rule(m.order) + ".")
    A("(* the rule, evaluated for the entries of apply_log_t that are NaN; other entries are kept (.astype(bool)) *)")
    A("Definition src_log_rule (lb ub : Rbar) (plb pub : R) : Prop :=")
    A("  " + coq_rule(m.rule) + ".")
    A("Definition src_log_flag (given : option bool) (lb ub : Rbar) (plb pub : R) (l : bool) : Prop :=")
    A("  match given with None => (l = true <-> src_log_rule lb ub plb pub) | Some b => l = b end.")
    A("")
    A("(* self.B[self.apply_log_t] = <f>(self.B[self.apply_log_t]) for B = lb, ub, plb, pub — before mu, gamma *)")
    A(f"Definition src_bound_pre (l : bool) (b : R) : R := if l then {coq(m.pre)} else b.")
    A(f"Definition src_mu (plb pub : R) : R := {coq(m.mu)}.")
    A(f"Definition src_gamma (plb pub : R) : R := {coq(m.gamma)}.")
    A("Definition src_mu_of (l : bool) (plb pub : R) : R := src_mu (src_bound_pre l plb) (src_bound_pre l pub).")
    A("Definition src_gamma_of (l : bool) (plb pub : R) : R := src_gamma (src_bound_pre l plb) (src_bound_pre l pub).")
    A("")
    A(f"Definition src_z (x mu gamma : R) : R := {coq(m.z)}.")
    A(f"Definition src_zlog_arg (x : R) : R := {coq(m.zlog_arg)}.")
    A(f"Definition src_zlog (x mu gamma : R) : R := {coq(m.zlog)}.")
    A(f"Definition src_z_masked (l : bool) (x mu gamma : R) : R := src_maskindex (src_z x mu gamma) {'l' if m.z_pol else '(negb l)'}.")
    A(f"Definition src_zlog_masked (l : bool) (x mu gamma : R) : R := src_maskindex (src_zlog x mu gamma) {'l' if m.zlog_pol else '(negb l)'}.")
    A("")
    A(f"Definition src_ginv_lin (y mu gamma : R) : R := {coq(m.ginv_arm[0])}.")
    A(f"Definition src_ginv_log (y mu gamma : R) : R := {coq(m.ginv_arm[1])}.")
    A(f"Definition src_ginv_mixed_lin (y mu gamma : R) : R := {coq(m.ginv_mixed_lin)}.")
    A(f"Definition src_ginv_mixed_log (y mu gamma : R) : R := {coq(m.ginv_mixed_log)}.")
    A("")
    A("(* arms: apply_log_t_sum == 0 / == self.D / otherwise *)")
    for k in range(3):
        A(f"Definition src_g_arm{k} (l : bool) (x mu gamma : R) : R := {coq(m.g_arm[k])}.")
    A("Definition src_ginv_arm0 (l : bool) (y mu gamma : R) : R := src_ginv_lin y mu gamma.")
    A("Definition src_ginv_arm1 (l : bool) (y mu gamma : R) : R := src_ginv_log y mu gamma.")
    A(f"Definition src_ginv_arm2 (l : bool) (y mu gamma : R) : R := {coq_appy(m.ginv_arm2)}.")
    A("")
    A("(* __call__: y = self.g(input); y = <clamp>(y, self.lb, self.ub)   with (self.lb, self.ub) = (g(orig_lb), g(orig_ub))")
    A("   inverse_transf: x = self.ginv(input); x = <clamp>(x, self.orig_lb, self.orig_ub)")
    A("   generic in the carrier T so that the same shape is used on R and on the extended reals *)")
    A(f"Definition src_clamp_fwd_gen {{T : Type}} (tmin tmax : T -> T -> T) (y lb ub : T) : T := {coq_gen(m.clamp_fwd)}.")
    A(f"Definition src_clamp_inv_gen {{T : Type}} (tmin tmax : T -> T -> T) (x lb ub : T) : T := {coq_gen(m.clamp_inv)}.")
    A("Definition src_clamp_fwd (y lb ub : R) : R := src_clamp_fwd_gen Rmin Rmax y lb ub.")
    A("Definition src_clamp_inv (x lb ub : R) : R := src_clamp_inv_gen Rmin Rmax x lb ub.")
    A("Definition src_call_gen {T : Type} (tmin tmax : T -> T -> T) (g : T -> T) (x orig_lb orig_ub : T) : T :=")
    A("  src_clamp_fwd_gen tmin tmax (g x) (g orig_lb) (g orig_ub).")
    A("Definition src_inverse_transf_gen {T : Type} (tmin tmax : T -> T -> T) (ginv : T -> T) (y orig_lb orig_ub : T) : T :=")
    A("  src_clamp_inv_gen tmin tmax (ginv y) orig_lb orig_ub.")
    return "\n".join(L) + "\n"


def emit():
    try:
        m = load()
        text = render(m)
    except Exception as ex:
        # fail closed: never leave a stale translation behind for the proofs to be checked against
        core.write_if_changed(OUT, "(* translate/transform.py could not translate the current source:\n   %s *)\n"
                              % str(ex).replace("*)", "* )").replace("(*", "( *"))
        raise
    changed = core.write_if_changed(OUT, text)
    return dict(source_sha=m.sha, out=str(OUT.relative_to(core.VERIF)), changed=changed, numeps=m.numeps,
                definitions=text.count("\nDefinition "))


# --------------------------------------------------------------------------- evaluators for the harness


class Evaluator:
    """Evaluates the translated trees for a whole box.  mode='float': NumPy arrays, same element-wise operations as the
    source (bit-for-bit comparable with the real object); mode='dec': Decimal scalars, one coordinate at a time."""

    def __init__(self, m: Model, mode: str):
        self.m, self.ops, self.mode = m, Ops(mode), mode

    # --- float mode: bounds are (1, D) arrays, l a (D,) bool array
    def setup(self, l, lb, ub, plb, pub):
        o, m = self.ops, self.m
        self.l = l
        pre = lambda b: self._pre(l, b)
        self.mu = ev(m.mu, {"plb": pre(plb), "pub": pre(pub)}, o, m.defs)
        self.gamma = ev(m.gamma, {"plb": pre(plb), "pub": pre(pub)}, o, m.defs)
        if self.mode == "float":
            n = int(np.sum(l))
            self.arm = 0 if n == 0 else (1 if n == l.size else 2)
        self.orig_lb, self.orig_ub = lb, ub
        self.lb, self.ub = self.g(lb), self.g(ub)
        return self

    def _pre(self, l, b):
        if self.mode == "float":
            with np.errstate(all="ignore"):
                return np.where(l, ev(self.m.pre, {"b": b}, self.ops, self.m.defs), b)
        return ev(self.m.pre, {"b": b}, self.ops, self.m.defs) if l else b

    def g(self, x):
        env = {"x": x, "mu": self.mu, "gamma": self.gamma, "l": self.l}
        return ev(self.m.g_arm[self.arm], env, self.ops, self.m.defs)

    def ginv(self, y):
        env = {"y": y, "mu": self.mu, "gamma": self.gamma, "l": self.l}
        if self.arm == 2:
            t = self.m.ginv_arm2
            lin = ev(self.m.ginv_mixed_lin, env, self.ops, self.m.defs)
            log = ev(self.m.ginv_mixed_log, env, self.ops, self.m.defs)
            parts = []
            for part in (t[1], t[2]):
                v = lin if part[1][1] == "src_ginv_mixed_lin" else log
                keep = (self.l if part[2] else ~self.l) if self.mode == "float" else (bool(self.l) == part[2])
                parts.append(self.ops.mask(v, keep))
            return parts[0] + parts[1]
        return ev(self.m.ginv_arm[self.arm], env, self.ops, self.m.defs)

    def call(self, x):
        return ev(self.m.clamp_fwd, {"y": self.g(x), "lb": self.lb, "ub": self.ub}, self.ops, self.m.defs)

    def inverse_transf(self, y):
        return ev(self.m.clamp_inv, {"x": self.ginv(y), "lb": self.orig_lb, "ub": self.orig_ub}, self.ops, self.m.defs)


def dec_coordinate(m: Model, arm: int, l: bool, lb, ub, plb, pub) -> Evaluator:
    """50-digit evaluator for one coordinate (bounds: Decimal, possibly infinite hard bounds)"""
    e = Evaluator(m, "dec")
    e.arm = arm
    return e.setup(l, lb, ub, plb, pub)


if __name__ == "__main__":
    print(emit())
