"""Fail-closed translator:  BADS._bounds_check_ (+ the vector defaults of BADS.__init__)  ->  coq/gen/Src_bounds.v

Re-reads pybads/bads/bads.py from VERIF_REPO (default /repo) on every ./check run and walks the body of `_bounds_check_`
IN STATEMENT ORDER.  The five vectors are identified by their POSITION in the signature
(x0, lower_bounds, upper_bounds, plausible_lower_bounds, plausible_upper_bounds -> coordinate fields cx, cl, cu, cpl, cpu of
Model/BoundsCheck.v); locals are followed by name, so renaming one changes nothing in the output.

Accepted statement shapes (ANYTHING else raises Untranslatable; ./check counts that as a broken obligation, never as a pass, and
the generated file is replaced by a comment so that the proofs that depend on it stop checking):

  docstring;  `N0, D = x0.shape`
  the defaults block   if plb is None or pub is None:
                           if N0 > 1: <estimation from a starting SET - outside the model (N0 = 1), skipped, must not raise/return>
                           else: <logger warning>; if plb is None: plb = np.copy(lb); if pub is None: pub = np.copy(ub)
  v = np.atleast_2d(v)                                   for a bound vector v (harmless)
  the shape test       if lb.shape != (1, D) or ... : raise ValueError(...)      -> src_shape_checked (must precede every test)
  a TEST               if np.any(B1) or np.any(B2) ...: raise ValueError(<message>)      -> STest tag [B1; B2; ...]
                       (also `if np.any(B1 | B2)`; tag = harness.comp_bounds.classify_message(message), the classifier the tie
                       applies to the exceptions of the real constructor; the real-valued test is tagged NotReal)
  a LOCAL              name = E   |   name[M] = E'        (E' : every array in it subscripted by the same mask M)
                       per coordinate:  name' = if M then E' else name.   Consecutive statements see the updated local.
  a REPAIR             if np.any(G1) or ...: <logger warnings>; v = E; w = E' ...   with v, w among x0 / plb / pub
                       -> SRepair [G1; ...] f,  f = the assignments read per coordinate, in their order
  if non_box_cons is not None: ...                        skipped (assumption non_box_cons = None); must not store a vector
  an `if` whose body only logs;  an assignment of an untranslatable expression to a fresh local that is never used in a
  test / repair (`ninfs = np.sum(...)`)
  return (x0, lb, ub, plb, pub)                          -> src_return_order

Expression grammar (per coordinate, over extended rationals Model/XQ.v; NumPy/IEEE semantics of NaN and the infinities):
  e ::= vector | local | float/int literal | sys.float_info.min | e + e | e - e | k * e | e * k | -e
      | np.minimum(e, e) | np.maximum(e, e) | np.copy(e) | e.copy() | np.atleast_2d(e) | x0.min(0) | x0.max(0)   (N0 = 1: identity)
  b ::= e < e | e <= e | e > e | e >= e | e == e | np.abs(e) <= k | b & b | b | b | ~b | np.invert(b) | b != b
      | np.isinf(e) | np.isfinite(e) | np.isreal(e)  (True: every modelled value is real)
A float literal is read as the DECIMAL it spells (1e-3 -> 1/1000: the convention of Model/BoundsCheck.v, whose header states the
consequences); `a > b` is emitted as `xlt b a`, `a >= b` as `xle b a`, the operands of `==` in a canonical order
(IEEE: the same predicate, NaN included), `(-k) * e` as `xneg (xscale k e)`.

THE HEAD (-> src_head : list hstmt, meaning: Model/BoundsSrc.v run_head, over the five OPTIONAL vectors).  Every statement of
BADS.__init__ that stores one of the five vector parameters / self.D / the five vector attributes must be one of
  if <c>: v = <val> | raise ValueError(<literal>) | nested if / else      c ::= v is None | v is not None | and | or | not
        val ::= np.atleast_2d(w).copy() | np.copy(w) | w  (VCopy)  |  np.full(np.atleast_2d(w).shape, np.nan)  (VFullLike)
              | np.ones((1, self.D)) * [-]np.inf  (VRow; only after self.D is set)
  x0 = np.atleast_2d(x0); self.D = x0.shape[1]              (HDim, the two statements adjacent)
  (self.x0, self.lower_bounds, ...) = self._bounds_check_(x0.copy(), lb, ub, plb, pub, non_box_cons)      (positional, this order)
  if not np.all(np.isfinite(self.x0)): self.x0 = np.random.uniform(low=self.plb, high=self.pub, ...)      (-> src_post_check, a text pin)
followed by the defaults block and the shape test of _bounds_check_ (HAssign / HShape).  Python evaluates an `if` test once, the
interpreter re-reads the condition at every statement of the block: the translator raises when a statement assigns a vector that a
later condition of the same block mentions (`(A or B) and B` is first simplified to `B`).

A local's value is an expression over the vectors AS THEY WERE when it was assigned: when a repair assigns a vector, every
local that (transitively) read it becomes stale and a later use raises.  Assigning lb / ub anywhere after the head raises.

TRANSLATOR VALIDATION (every run, props/C08.py): the GENERATED programs (`run_head src_head` and `run_prog src_prog` inside
Model/BoundsSrc.v's construct_with2) are evaluated by Coq on the same ~20000 definitions as the hand-written model and compared with the real
constructor's outcome; the Python evaluator of the same trees (used to aim the search) is compared with it implicitly
through the monitor only.

REFERENCE SNAPSHOT.  translate/bounds_reference.json holds the trees of the last translation the proofs were written
against (`python -m translate.bounds --write-reference`).  It is NEVER used to decide anything: diff() uses it to say WHICH
test / repair / constant of the current source differs, so that props/C08.py can aim its search there.
"""
from __future__ import annotations

import ast
import json
import sys
import warnings
from fractions import Fraction
from pathlib import Path

from vlib import core

REL = "pybads/bads/bads.py"
OUT = core.GEN / "Src_bounds.v"
REFERENCE = Path(__file__).resolve().parent / "bounds_reference.json"
FIELDS = ["cx", "cl", "cu", "cpl", "cpu"]
RANK = {"cl": 0, "cu": 1, "cpl": 2, "cpu": 3, "cx": 4}
MARK = "Definition src_prog"


class Untranslatable(Exception):
    def __init__(self, msg, node=None, tag=None):
        self.lineno = getattr(node, "lineno", None)
        self.tag = tag
        where = f"{REL}:{self.lineno}: " if self.lineno else f"{REL}: "
        frag = ""
        if isinstance(node, ast.AST):
            try:
                frag = " :: " + " ".join(ast.unparse(node).split())[:160]
            except Exception:
                frag = ""
        super().__init__(where + msg + frag + (f" [in test/repair {tag}]" if tag else ""))


def bad(msg, node=None, tag=None):
    raise Untranslatable(msg, node, tag)


def dump(n):
    return ast.dump(n, annotate_fields=False, include_attributes=False).replace("Store()", "Load()")


def dotted(n):
    if isinstance(n, ast.Name):
        return n.id
    if isinstance(n, ast.Attribute):
        b = dotted(n.value)
        return None if b is None else b + "." + n.attr
    return None


def is_np(n, name):
    return dotted(n) == "np." + name


def frac_of_literal(v):
    if isinstance(v, bool) or not isinstance(v, (int, float)):
        return None
    if isinstance(v, float) and (v != v or v in (float("inf"), float("-inf"))):
        return None
    return Fraction(repr(v)) if isinstance(v, float) else Fraction(v)


def q(fr):
    return ("q", fr.numerator, fr.denominator)


def qfrac(ir):
    return Fraction(ir[1], ir[2])


# ----------------------------------------------------------------------------- translation state


class State:
    def __init__(self, vec):
        self.vec = vec              # python name -> field
        self.env = {}               # local name -> ("scalar", ir) | ("num"/"bool", ssa) | ("opaque", why)
        self.defs = {}              # ssa -> (type, ir, deps)
        self.order = []             # ssa names in definition order
        self.stale = {}             # ssa -> reason
        self.ver = {}
        self.dims = {}              # names bound by `N0, D = x0.shape`
        self.tag = None

    def fresh(self, name):
        k = self.ver.get(name, 0)
        self.ver[name] = k + 1
        return f"v_{name}_{k}"

    def deps(self, ir, acc=None):
        acc = set() if acc is None else acc
        if ir[0] == "vec":
            acc.add(ir[1])
        elif ir[0] == "loc":
            acc |= self.defs[ir[1]][2]
        else:
            for x in ir[1:]:
                if isinstance(x, tuple):
                    self.deps(x, acc)
        return acc

    def bind(self, name, ty, ir):
        if ty == "scalar":
            self.env[name] = ("scalar", ir)
            return
        s = self.fresh(name)
        self.defs[s] = (ty, ir, self.deps(ir))
        self.order.append(s)
        self.env[name] = (ty, s)

    def vector_assigned(self, field, node):
        for s, (ty, ir, dp) in self.defs.items():
            if field in dp and s not in self.stale:
                self.stale[s] = f"it was computed from {field} before the assignment at line {getattr(node, 'lineno', '?')}"


# ----------------------------------------------------------------------------- expressions


def as_num(ty, ir, node, st):
    if ty == "num":
        return ir
    if ty == "scalar":
        return ("const", ir)
    bad(f"a {ty} where a number is expected", node, st.tag)


def tr(node, st, mask=None, under=False):
    """ast -> (type, ir); type in num / scalar / bool.  mask: dump of the mask of the enclosing masked assignment (arrays must
    then appear as A[mask]); under: we are directly below such a subscript."""
    T = st.tag
    if isinstance(node, ast.Constant):
        fr = frac_of_literal(node.value)
        if fr is None:
            bad("literal not in the grammar", node, T)
        return "scalar", q(fr)
    if isinstance(node, ast.Name):
        if node.id in st.vec:
            if mask is not None and not under:
                bad("array used without the mask inside a masked assignment", node, T)
            return "num", ("vec", st.vec[node.id])
        if node.id in st.env:
            ty, v = st.env[node.id]
            if ty == "scalar":
                return "scalar", v
            if ty == "opaque":
                bad(f"local {node.id} is not translatable ({v}) but is used here", node, T)
            if v in st.stale:
                bad(f"local {node.id} is stale: {st.stale[v]}", node, T)
            if mask is not None and not under:
                bad("array used without the mask inside a masked assignment", node, T)
            return ty, ("loc", v)
        bad(f"free name {node.id}", node, T)
    if isinstance(node, ast.Attribute):
        if dotted(node) == "sys.float_info.min":
            return "scalar", q(Fraction(1, 2 ** 1022))
        bad("attribute not in the grammar", node, T)
    if isinstance(node, ast.Subscript):
        if mask is None or dump(node.slice) != mask:
            bad("subscript that is not the mask of the enclosing masked assignment", node, T)
        return tr(node.value, st, mask, under=True)
    if isinstance(node, ast.UnaryOp):
        ty, a = tr(node.operand, st, mask)
        if isinstance(node.op, ast.USub):
            if ty == "scalar":
                return "scalar", q(-qfrac(a))
            if ty == "num":
                return "num", ("neg", a)
        if isinstance(node.op, ast.Invert) and ty == "bool":
            return "bool", ("not", a)
        if isinstance(node.op, ast.UAdd) and ty in ("scalar", "num"):
            return ty, a
        bad("unary operator not in the grammar", node, T)
    if isinstance(node, ast.BinOp):
        ta, a = tr(node.left, st, mask)
        tb, b = tr(node.right, st, mask)
        op = type(node.op)
        if op in (ast.Add, ast.Sub):
            if ta == "scalar" and tb == "scalar":
                return "scalar", q(qfrac(a) + qfrac(b) if op is ast.Add else qfrac(a) - qfrac(b))
            if "bool" in (ta, tb):
                bad("arithmetic on a boolean array", node, T)
            return "num", ("add" if op is ast.Add else "sub", as_num(ta, a, node, st), as_num(tb, b, node, st))
        if op is ast.Mult:
            if ta == "scalar" and tb == "scalar":
                return "scalar", q(qfrac(a) * qfrac(b))
            if ta == "scalar" and tb == "num":
                k, e = qfrac(a), b
            elif ta == "num" and tb == "scalar":
                k, e = qfrac(b), a
            else:
                bad("product that is not <scalar constant> * <array>", node, T)
            if k == 0:
                bad("multiplication by the constant 0 (0 * inf is NaN: not a scaling)", node, T)
            return "num", (("scale", q(k), e) if k > 0 else ("neg", ("scale", q(-k), e)))
        if op in (ast.BitAnd, ast.BitOr):
            if ta == tb == "bool":
                return "bool", ("and" if op is ast.BitAnd else "or", a, b)
            bad("& / | on something that is not a boolean array", node, T)
        bad("binary operator not in the grammar", node, T)
    if isinstance(node, ast.Compare):
        if len(node.ops) != 1:
            bad("chained comparison", node, T)
        op = type(node.ops[0])
        L, R = node.left, node.comparators[0]
        # np.abs(e) <= k
        if isinstance(L, ast.Call) and is_np(L.func, "abs") and len(L.args) == 1 and not L.keywords:
            te, e = tr(L.args[0], st, mask)
            tk, k = tr(R, st, mask)
            if op is ast.LtE and te == "num" and tk == "scalar":
                return "bool", ("abs_le", e, k)
            bad("np.abs(...) is only understood as np.abs(<array>) <= <scalar constant>", node, T)
        ta, a = tr(L, st, mask)
        tb, b = tr(R, st, mask)
        if op is ast.NotEq:
            if ta == tb == "bool":
                return "bool", ("bneq", a, b)
            bad("!= is only understood between boolean arrays", node, T)
        if ta == "bool" or tb == "bool":
            bad("comparison of a boolean array", node, T)
        if ta == "scalar" and tb == "scalar":
            bad("comparison of two constants", node, T)
        a, b = as_num(ta, a, node, st), as_num(tb, b, node, st)
        if op is ast.Lt:
            return "bool", ("lt", a, b)
        if op is ast.LtE:
            return "bool", ("le", a, b)
        if op is ast.Gt:
            return "bool", ("lt", b, a)
        if op is ast.GtE:
            return "bool", ("le", b, a)
        if op is ast.Eq:
            a, b = sorted([a, b], key=lambda t: (RANK.get(t[1], 9) if t[0] == "vec" else 99, repr(t)))
            return "bool", ("eq", a, b)
        bad("comparison operator not in the grammar", node, T)
    if isinstance(node, ast.Call) and not node.keywords:
        f, args = node.func, node.args
        if len(args) == 2 and (is_np(f, "minimum") or is_np(f, "maximum")):
            ta, a = tr(args[0], st, mask)
            tb, b = tr(args[1], st, mask)
            if ta == "bool" or tb == "bool" or (ta == tb == "scalar"):
                bad("np.minimum / np.maximum of something that is not an array", node, T)
            return "num", ("min" if is_np(f, "minimum") else "max", as_num(ta, a, node, st), as_num(tb, b, node, st))
        if len(args) == 1 and (is_np(f, "isinf") or is_np(f, "isfinite")):
            ta, a = tr(args[0], st, mask)
            if ta != "num":
                bad("np.isinf / np.isfinite of something that is not an array", node, T)
            return "bool", ("isinf" if is_np(f, "isinf") else "isfinite", a)
        if len(args) == 1 and is_np(f, "isreal"):
            ta, a = tr(args[0], st, mask)
            if ta != "num":
                bad("np.isreal of something that is not an array", node, T)
            return "bool", ("true",)
        if len(args) == 1 and is_np(f, "invert"):
            ta, a = tr(args[0], st, mask)
            if ta != "bool":
                bad("np.invert of something that is not a boolean array", node, T)
            return "bool", ("not", a)
        if len(args) == 1 and (is_np(f, "copy") or is_np(f, "atleast_2d")):
            ta, a = tr(args[0], st, mask)
            if ta != "num":
                bad("np.copy / np.atleast_2d of something that is not an array", node, T)
            return "num", a
        if isinstance(f, ast.Attribute) and f.attr == "copy" and not args:
            ta, a = tr(f.value, st, mask)
            if ta != "num":
                bad(".copy() of something that is not an array", node, T)
            return "num", a
        if (isinstance(f, ast.Attribute) and f.attr in ("min", "max") and len(args) == 1 and isinstance(args[0], ast.Constant)
                and args[0].value == 0 and type(args[0].value) is int and isinstance(f.value, ast.Name)
                and st.vec.get(f.value.id) == "cx"):
            # x0.min(0) / x0.max(0) over a starting SET of one row (N0 = 1, the model's assumption): the row itself
            return "num", ("vec", "cx")
    bad("expression not in the grammar", node, T)


def any_list(test, st):
    """`np.any(B)` | `np.any(B1) or np.any(B2) ...` -> [ir of B1, ir of B2, ...]"""
    if isinstance(test, ast.BoolOp) and isinstance(test.op, ast.Or):
        out = []
        for v in test.values:
            out += any_list(v, st)
        return out
    if isinstance(test, ast.Call) and is_np(test.func, "any") and len(test.args) == 1 and not test.keywords:
        ty, b = tr(test.args[0], st)
        if ty != "bool":
            bad("np.any of something that is not a boolean array", test, st.tag)
        return [b]
    bad("condition that is not `np.any(<boolean array>)` or an `or` of such", test, st.tag)


# ----------------------------------------------------------------------------- statement shapes


def const_text(n):
    """the literal text of a message expression (str constant, f-string, '+'-concatenation), f-string holes dropped"""
    if isinstance(n, ast.Constant) and isinstance(n.value, str):
        return n.value
    if isinstance(n, ast.JoinedStr):
        return "".join(v.value for v in n.values if isinstance(v, ast.Constant) and isinstance(v.value, str))
    if isinstance(n, ast.BinOp) and isinstance(n.op, ast.Add):
        a, b = const_text(n.left), const_text(n.right)
        return None if a is None or b is None else a + b
    return None


def raise_message(st_):
    """`raise ValueError(<message>)` -> message text, else None"""
    if (isinstance(st_, ast.Raise) and st_.cause is None and isinstance(st_.exc, ast.Call) and isinstance(st_.exc.func, ast.Name)
            and st_.exc.func.id == "ValueError" and len(st_.exc.args) == 1 and not st_.exc.keywords):
        return const_text(st_.exc.args[0])
    return None


def classify(msg):
    from harness.comp_bounds import REASONS, classify_message
    t = classify_message(msg)
    if t in REASONS:
        return t
    if "need to be real valued" in " ".join(msg.split()):
        return "NotReal"
    return t


def is_logger_stmt(s):
    return (isinstance(s, ast.Expr) and isinstance(s.value, ast.Call) and isinstance(s.value.func, ast.Attribute)
            and dotted(s.value.func.value) == "self.logger" and s.value.func.attr in ("warning", "info", "debug", "log", "error"))


def only_logs(stmts):
    for s in stmts:
        if is_logger_stmt(s) or isinstance(s, ast.Pass):
            continue
        if isinstance(s, ast.If) and only_logs(s.body) and only_logs(s.orelse):
            continue
        return False
    return True


def stored_names(node):
    out = set()
    for n in ast.walk(node):
        if isinstance(n, ast.Name) and isinstance(n.ctx, (ast.Store, ast.Del)):
            out.add(n.id)
        elif isinstance(n, (ast.Subscript, ast.Attribute)) and isinstance(n.ctx, (ast.Store, ast.Del)):
            e = n
            while isinstance(e, (ast.Subscript, ast.Attribute)):
                e = e.value
            if isinstance(e, ast.Name):
                out.add(e.id)
        elif isinstance(n, ast.NamedExpr):
            out.add(n.target.id)
    return out


def is_none_test(n, negate=False):
    """`v is None` (or `v is not None` when negate) -> v's name"""
    if (isinstance(n, ast.Compare) and len(n.ops) == 1 and isinstance(n.ops[0], ast.IsNot if negate else ast.Is)
            and isinstance(n.left, ast.Name) and isinstance(n.comparators[0], ast.Constant) and n.comparators[0].value is None):
        return n.left.id
    return None


# ----------------------------------------------------------------------------- the walk of _bounds_check_


def parse_bounds_check(fn):
    args = [a.arg for a in fn.args.args]
    if len(args) != 7 or args[0] != "self" or fn.args.vararg or fn.args.kwarg or fn.args.kwonlyargs or fn.args.posonlyargs:
        bad(f"_bounds_check_ does not take (self, x0, lb, ub, plb, pub, non_box_cons): {args}", fn)
    defaults = fn.args.defaults
    if any(not (isinstance(d, ast.Constant) and d.value is None) for d in defaults):
        bad("a parameter of _bounds_check_ has a default other than None", fn)
    vec = dict(zip(args[1:6], FIELDS))
    nbc = args[6]
    rev = {v: k for k, v in vec.items()}
    st = State(vec)
    prog = []          # ("test", tag, [ir]) | ("repair", name, [ir], [(field, ir)])
    info = dict(shape_checked=None, bc_defaults=[], return_order=None, arg_order=[vec[a] for a in args[1:6]],
                nonbox_block=False, lines={}, head=[])
    body = list(fn.body)
    if body and isinstance(body[0], ast.Expr) and isinstance(body[0].value, ast.Constant) and isinstance(body[0].value.value, str):
        body = body[1:]
    seen_test = False
    returned = False
    n_repairs = 0
    for s in body:
        if returned:
            bad("statement after the return", s)
        st.tag = None
        # ---- N0, D = x0.shape
        if (isinstance(s, ast.Assign) and len(s.targets) == 1 and isinstance(s.targets[0], ast.Tuple) and len(s.targets[0].elts) == 2
                and all(isinstance(e, ast.Name) for e in s.targets[0].elts) and isinstance(s.value, ast.Attribute)
                and s.value.attr == "shape" and isinstance(s.value.value, ast.Name) and vec.get(s.value.value.id) == "cx"):
            if st.dims or prog or seen_test:
                bad("the dimensions are read twice or after a test", s)
            st.dims = {"N0": s.targets[0].elts[0].id, "D": s.targets[0].elts[1].id}
            continue
        if isinstance(s, ast.If):
            # ---- the defaults block
            if isinstance(s.test, ast.BoolOp) and isinstance(s.test.op, ast.Or) and all(is_none_test(v) for v in s.test.values):
                names = sorted(vec.get(is_none_test(v), "?") for v in s.test.values)
                if names != ["cpl", "cpu"] or s.orelse or seen_test or prog or info["bc_defaults"]:
                    bad("defaults block of the plausible bounds not in the expected place / on the expected vectors", s)
                parse_defaults_block(s, st, rev, info)
                continue
            # ---- non_box_cons block
            if is_none_test(s.test, negate=True) == nbc:
                hit = stored_names(s) & (set(vec) | set(st.env))
                if hit:
                    bad(f"the non_box_cons block assigns {sorted(hit)}", s)
                if any(isinstance(n, ast.Return) for n in ast.walk(s)):
                    bad("the non_box_cons block returns", s)
                info["nonbox_block"] = True
                continue
            msg = raise_message(s.body[0]) if len(s.body) == 1 else None
            if len(s.body) == 1 and isinstance(s.body[0], ast.Raise):
                if msg is None:
                    bad("raise that is not `raise ValueError(<literal message>)`", s.body[0])
                if s.orelse:
                    bad("test with an else branch", s)
                tag = classify(msg)
                st.tag = tag
                info["lines"].setdefault(tag, s.lineno)
                # ---- the shape test
                if tag == "DimMismatch":
                    if seen_test or prog or info["shape_checked"] is not None:
                        bad("the shape test does not precede every other test", s, tag)
                    info["shape_checked"] = parse_shape_test(s.test, st, tag)
                    info["head"].append(("shape", info["shape_checked"], tag))
                    continue
                if info["shape_checked"] is None:
                    bad("a test precedes the shape test", s, tag)
                seen_test = True
                prog.append(("test", tag, any_list(s.test, st)))
                continue
            # ---- an `if` that only logs
            if only_logs(s.body) and only_logs(s.orelse):
                continue
            # ---- a repair
            if s.orelse:
                bad("conditional assignment with an else branch", s)
            n_repairs += 1
            st.tag = f"repair#{n_repairs}"
            guard = any_list(s.test, st)
            assigns = []
            for b in s.body:
                if is_logger_stmt(b):
                    continue
                if (isinstance(b, ast.Assign) and len(b.targets) == 1 and isinstance(b.targets[0], ast.Name)
                        and b.targets[0].id in vec):
                    f = vec[b.targets[0].id]
                    if f in ("cl", "cu"):
                        bad("a hard bound is assigned", b, st.tag)
                    ty, ir = tr(b.value, st)
                    if ty != "num":
                        bad("a vector is assigned something that is not an array", b, st.tag)
                    assigns.append((f, ir))
                    st.vector_assigned(f, b)
                    continue
                bad("statement inside a conditional block that is neither a logger call nor `<vector> = <expression>`", b, st.tag)
            if not assigns:
                bad("conditional block without effect that is not a pure logging block", s, st.tag)
            name = "+".join(dict.fromkeys(f for f, _ in assigns))
            info["lines"].setdefault(st.tag, s.lineno)
            prog.append(("repair", name, guard, assigns))
            continue
        if is_logger_stmt(s) or isinstance(s, ast.Pass):
            continue
        if isinstance(s, ast.Return):
            v = s.value
            if not (isinstance(v, ast.Tuple) and len(v.elts) == 5 and all(isinstance(e, ast.Name) and e.id in vec for e in v.elts)):
                bad("return value is not the tuple of the five vectors", s)
            info["return_order"] = [vec[e.id] for e in v.elts]
            returned = True
            continue
        if isinstance(s, ast.Assign) and len(s.targets) == 1:
            t = s.targets[0]
            # ---- v = np.atleast_2d(v)
            if isinstance(t, ast.Name) and t.id in vec:
                v = s.value
                if (isinstance(v, ast.Call) and is_np(v.func, "atleast_2d") and len(v.args) == 1 and not v.keywords
                        and isinstance(v.args[0], ast.Name) and v.args[0].id == t.id and vec[t.id] != "cx"):
                    continue
                bad("unconditional assignment to one of the five vectors that is not `v = np.atleast_2d(v)`", s)
            # ---- local = E
            if isinstance(t, ast.Name):
                if t.id in st.dims.values() or t.id == nbc or t.id == "self":
                    bad("a dimension / parameter is re-bound", s)
                try:
                    ty, ir = tr(s.value, st)
                except Untranslatable as ex:
                    # a local the tests never use (`ninfs = np.sum(...)`): opaque; using it later raises
                    st.env[t.id] = ("opaque", str(ex)[:120])
                    continue
                st.bind(t.id, ty, ir)
                continue
            # ---- local[M] = E
            if isinstance(t, ast.Subscript) and isinstance(t.value, ast.Name):
                nm = t.value.id
                if nm in vec:
                    bad("masked store into one of the five vectors", s)
                if nm not in st.env or st.env[nm][0] != "num":
                    bad("masked store into something that is not a numeric local", s)
                tm, m = tr(t.slice, st)
                if tm != "bool":
                    bad("subscript of a masked store is not a boolean array", s)
                _, prev = tr(t.value, st)
                ty, rhs = tr(s.value, st, mask=dump(t.slice))
                st.bind(nm, "num", ("ite", m, as_num(ty, rhs, s, st), prev))
                continue
        bad("statement not in the whitelist of _bounds_check_", s)
    if not returned:
        bad("_bounds_check_ does not end with the return of the five vectors", fn)
    if info["shape_checked"] is None or len(info["bc_defaults"]) != 2 or not st.dims:
        bad("head of _bounds_check_ incomplete (dimensions / defaults block / shape test)", fn)
    return prog, st, info


def parse_defaults_block(s, st, rev, info):
    vec = st.vec
    if len(s.body) != 1 or not isinstance(s.body[0], ast.If):
        bad("defaults block is not `if N0 > 1: ... else: ...`", s)
    inner = s.body[0]
    t = inner.test
    if not (isinstance(t, ast.Compare) and len(t.ops) == 1 and isinstance(t.ops[0], ast.Gt) and isinstance(t.left, ast.Name)
            and t.left.id == st.dims.get("N0") and isinstance(t.comparators[0], ast.Constant) and t.comparators[0].value == 1
            and type(t.comparators[0].value) is int):
        bad("defaults block does not branch on N0 > 1", inner)
    for n in ast.walk(ast.Module(body=inner.body, type_ignores=[])):
        if isinstance(n, (ast.Raise, ast.Return)):
            bad("the N0 > 1 branch raises / returns (not modelled: N0 = 1)", n)
    got = []
    outer_c = head_cond(s.test, vec)
    assigned = set()
    for b in inner.orelse:
        if is_logger_stmt(b):
            continue
        ok = (isinstance(b, ast.If) and not b.orelse and len(b.body) == 1 and is_none_test(b.test) in vec
              and isinstance(b.body[0], ast.Assign) and len(b.body[0].targets) == 1 and isinstance(b.body[0].targets[0], ast.Name)
              and b.body[0].targets[0].id == is_none_test(b.test))
        if not ok:
            bad("statement of the N0 = 1 defaults that is not `if v is None: v = np.copy(w)`", b)
        head_if(b, vec, outer_c, True, info["head"], assigned)
        h = info["head"][-1]
        if h[3][0] != "copy":
            bad("default of an absent plausible bound is not a copy of one of the vectors", b)
        got.append((h[2], h[3][1]))
    info["bc_defaults"] = got


def parse_shape_test(test, st, tag):
    vals = test.values if isinstance(test, ast.BoolOp) and isinstance(test.op, ast.Or) else [test]
    out = []
    for v in vals:
        ok = (isinstance(v, ast.Compare) and len(v.ops) == 1 and isinstance(v.ops[0], ast.NotEq) and isinstance(v.left, ast.Attribute)
              and v.left.attr == "shape" and isinstance(v.left.value, ast.Name) and v.left.value.id in st.vec
              and isinstance(v.comparators[0], ast.Tuple) and len(v.comparators[0].elts) == 2
              and isinstance(v.comparators[0].elts[0], ast.Constant) and v.comparators[0].elts[0].value == 1
              and type(v.comparators[0].elts[0].value) is int
              and isinstance(v.comparators[0].elts[1], ast.Name) and v.comparators[0].elts[1].id == st.dims.get("D"))
        if not ok:
            bad("disjunct of the shape test is not `v.shape != (1, D)`", v, tag)
        out.append(st.vec[v.left.value.id])
    if len(set(out)) != len(out):
        bad("a vector is shape-tested twice", test, tag)
    return out


# ----------------------------------------------------------------------------- the HEAD: BADS.__init__ + head of _bounds_check_
#
# hstmt trees (Model/BoundsSrc.v):  ("assign", cond, field, val) | ("raise", cond, tag) | ("dim",) | ("shape", [fields], tag)
# cond: ("none", f) | ("some", f) | ("and", a, b) | ("or", a, b) | ("not", a);  val: ("copy", f) | ("full", f, x) | ("row", x)
# with x in "XNaN" / "XPInf" / "XNInf".

HF = {"cx": "FX", "cl": "FL", "cu": "FU", "cpl": "FPL", "cpu": "FPU"}


def head_cond(n, vec):
    a = is_none_test(n)
    if a is not None and a in vec:
        return ("none", vec[a])
    a = is_none_test(n, negate=True)
    if a is not None and a in vec:
        return ("some", vec[a])
    if isinstance(n, ast.BoolOp) and isinstance(n.op, (ast.And, ast.Or)):
        k = "and" if isinstance(n.op, ast.And) else "or"
        r = head_cond(n.values[0], vec)
        for v in n.values[1:]:
            r = (k, r, head_cond(v, vec))
        return r
    if isinstance(n, ast.UnaryOp) and isinstance(n.op, ast.Not):
        return ("not", head_cond(n.operand, vec))
    bad("condition on the vectors that is not made of `v is None` / `v is not None` / and / or / not", n)


def conj(outer, c):
    return c if outer is None else ("and", outer, c)


def head_value(n, vec, D_bound):
    """right-hand side of a default -> val tree"""
    if isinstance(n, ast.Call) and isinstance(n.func, ast.Attribute) and n.func.attr == "copy" and not n.args and not n.keywords:
        return head_value(n.func.value, vec, D_bound)
    if isinstance(n, ast.Call) and (is_np(n.func, "atleast_2d") or is_np(n.func, "copy")) and len(n.args) == 1 and not n.keywords:
        return head_value(n.args[0], vec, D_bound)
    if isinstance(n, ast.Name) and n.id in vec:
        return ("copy", vec[n.id])
    if (isinstance(n, ast.Call) and is_np(n.func, "full") and len(n.args) == 2 and not n.keywords and is_np(n.args[1], "nan")
            and isinstance(n.args[0], ast.Attribute) and n.args[0].attr == "shape"):
        inner = head_value(n.args[0].value, vec, D_bound)
        if inner[0] == "copy":
            return ("full", inner[1], "XNaN")
    if isinstance(n, ast.BinOp) and isinstance(n.op, ast.Mult):
        l, r = n.left, n.right
        ones = (isinstance(l, ast.Call) and is_np(l.func, "ones") and len(l.args) == 1 and not l.keywords and isinstance(l.args[0], ast.Tuple)
                and len(l.args[0].elts) == 2 and isinstance(l.args[0].elts[0], ast.Constant) and l.args[0].elts[0].value == 1
                and type(l.args[0].elts[0].value) is int and dotted(l.args[0].elts[1]) == "self.D")
        if ones and not D_bound:
            bad("self.D used before it is set", n)
        if ones and is_np(r, "inf"):
            return ("row", "XPInf")
        if ones and isinstance(r, ast.UnaryOp) and isinstance(r.op, ast.USub) and is_np(r.operand, "inf"):
            return ("row", "XNInf")
    bad("right-hand side of a vector default not in the grammar", n)


def cond_fields(c, acc=None):
    acc = set() if acc is None else acc
    if c[0] in ("none", "some"):
        acc.add(c[1])
    else:
        for x in c[1:]:
            cond_fields(x, acc)
    return acc


def disjuncts(c):
    return disjuncts(c[1]) + disjuncts(c[2]) if c[0] == "or" else [c]


def implied_conj(outer, c):
    """`outer and c`, simplified to `c` when c is literally one of the disjuncts of outer"""
    if outer is not None and c in disjuncts(outer):
        return c
    return conj(outer, c)


def head_if(s, vec, outer, D_bound, out, assigned=None):
    """Python evaluates the test of an `if` ONCE, the interpreter of the head re-reads the condition at every statement: the two
    agree as long as no statement of the block assigns a vector that a LATER statement's condition mentions (checked)."""
    assigned = set() if assigned is None else assigned
    c = head_cond(s.test, vec)
    for branch, cond in ((s.body, implied_conj(outer, c)), (s.orelse, conj(outer, ("not", c)))):
        for b in branch:
            if not (is_logger_stmt(b) or isinstance(b, ast.Pass)) and cond_fields(cond) & assigned:
                bad(f"a condition is re-read after {sorted(cond_fields(cond) & assigned)} was assigned in the same block", b)
            if is_logger_stmt(b) or isinstance(b, ast.Pass):
                continue
            if isinstance(b, ast.If):
                head_if(b, vec, cond, D_bound, out, assigned)
                continue
            if isinstance(b, ast.Raise):
                msg = raise_message(b)
                if msg is None:
                    bad("raise in a vector default that is not ValueError(<literal>)", b)
                out.append(("raise", cond, classify(msg)))
                continue
            if isinstance(b, ast.Assign) and len(b.targets) == 1 and isinstance(b.targets[0], ast.Name) and b.targets[0].id in vec:
                out.append(("assign", cond, vec[b.targets[0].id], head_value(b.value, vec, D_bound)))
                assigned.add(vec[b.targets[0].id])
                continue
            bad("statement of a vector-default block not in the whitelist", b)


def parse_init(fn):
    """the statements of BADS.__init__ that touch the five vectors, in order -> (head statements before the call, post pins)"""
    params = [a.arg for a in fn.args.args]
    want = ["self", "fun", "x0", "lower_bounds", "upper_bounds", "plausible_lower_bounds", "plausible_upper_bounds"]
    if params[:7] != want:
        bad(f"BADS.__init__ does not start with {want}: {params[:7]}", fn)
    vec = dict(zip(params[2:7], FIELDS))
    out, post = [], []
    called = False
    D_bound = False
    pending_2d = False
    for s in fn.body:
        touched = (stored_names(s) & set(vec))
        attr_store = [n for n in ast.walk(s) if isinstance(n, ast.Attribute) and isinstance(n.ctx, ast.Store) and dotted(n) in
                      ("self.x0", "self.lower_bounds", "self.upper_bounds", "self.plausible_lower_bounds", "self.plausible_upper_bounds", "self.D")]
        calls_bc = any(isinstance(n, ast.Call) and dotted(n.func) == "self._bounds_check_" for n in ast.walk(s))
        if not touched and not attr_store and not calls_bc:
            continue
        if called:
            # after the check: only the draw of a non-finite x0
            ok = (isinstance(s, ast.If) and not s.orelse and dump(s.test) == dump(ast.parse("not np.all(np.isfinite(self.x0))", mode="eval").body))
            if ok:
                a = [b for b in s.body if not is_logger_stmt(b)]
                ok = (len(a) == 1 and isinstance(a[0], ast.Assign) and dotted(a[0].targets[0]) == "self.x0" and isinstance(a[0].value, ast.Call)
                      and dotted(a[0].value.func) == "np.random.uniform")
                if ok:
                    kw = {k.arg: dotted(k.value) for k in a[0].value.keywords}
                    ok = (not a[0].value.args and kw.get("low") == "self.plausible_lower_bounds" and kw.get("high") == "self.plausible_upper_bounds")
            if not ok:
                bad("a vector attribute is assigned after _bounds_check_ by something else than the uniform draw of a non-finite x0", s)
            post.append(("cx", "not all(isfinite(cx))", "uniform(cpl, cpu)"))
            continue
        if calls_bc:
            ok = (isinstance(s, ast.Assign) and len(s.targets) == 1 and isinstance(s.targets[0], ast.Tuple)
                  and [dotted(e) for e in s.targets[0].elts] == ["self.x0", "self.lower_bounds", "self.upper_bounds",
                                                                 "self.plausible_lower_bounds", "self.plausible_upper_bounds"]
                  and isinstance(s.value, ast.Call) and dotted(s.value.func) == "self._bounds_check_" and not s.value.keywords
                  and len(s.value.args) == 6)
            if ok:
                a = s.value.args
                first = (isinstance(a[0], ast.Call) and isinstance(a[0].func, ast.Attribute) and a[0].func.attr == "copy" and not a[0].args
                         and isinstance(a[0].func.value, ast.Name) and vec.get(a[0].func.value.id) == "cx")
                ok = first and [vec.get(x.id) if isinstance(x, ast.Name) else None for x in a[1:5]] == ["cl", "cu", "cpl", "cpu"]
            if not ok or not D_bound:
                bad("_bounds_check_ is not called as (self.x0, self.lb, self.ub, self.plb, self.pub) = self._bounds_check_(x0.copy(), lb, ub, plb, pub, non_box_cons) after self.D is set", s)
            called = True
            continue
        # self.D = x0.shape[1]   (directly after x0 = np.atleast_2d(x0))
        if attr_store:
            ok = (isinstance(s, ast.Assign) and len(s.targets) == 1 and dotted(s.targets[0]) == "self.D"
                  and dump(s.value) == dump(ast.parse(f"{params[2]}.shape[1]", mode="eval").body))
            if not ok or not pending_2d or D_bound:
                bad("self.D / a vector attribute is assigned before _bounds_check_ otherwise than by `x0 = np.atleast_2d(x0); self.D = x0.shape[1]`", s)
            out.append(("dim",))
            D_bound = True
            pending_2d = False
            continue
        if pending_2d:
            bad("x0 = np.atleast_2d(x0) is not directly followed by self.D = x0.shape[1]", s)
        # x0 = np.atleast_2d(x0)
        if (isinstance(s, ast.Assign) and len(s.targets) == 1 and isinstance(s.targets[0], ast.Name) and vec.get(s.targets[0].id) == "cx"
                and isinstance(s.value, ast.Call) and is_np(s.value.func, "atleast_2d") and len(s.value.args) == 1
                and isinstance(s.value.args[0], ast.Name) and s.value.args[0].id == s.targets[0].id):
            pending_2d = True
            continue
        if isinstance(s, ast.If):
            head_if(s, vec, None, D_bound, out)
            continue
        bad("statement of BADS.__init__ that assigns one of the five vectors in an unknown way", s)
    if not called:
        bad("BADS.__init__ does not call self._bounds_check_", fn)
    if len(post) != 1:
        bad(f"expected exactly one statement on the vectors after _bounds_check_ (the draw of a non-finite x0), found {len(post)}", fn)
    return out, post


def coq_cond(c):
    k = c[0]
    if k == "none":
        return f"(CNone {HF[c[1]]})"
    if k == "some":
        return f"(CSome {HF[c[1]]})"
    if k == "not":
        return f"(CNot {coq_cond(c[1])})"
    return f"({'CAnd' if k == 'and' else 'COr'} {coq_cond(c[1])} {coq_cond(c[2])})"


def coq_hstmt(h):
    if h[0] == "assign":
        v = h[3]
        val = (f"(VCopy {HF[v[1]]})" if v[0] == "copy" else f"(VFullLike {HF[v[1]]} {v[2]})" if v[0] == "full" else f"(VRow {v[1]})")
        return f"HAssign {coq_cond(h[1])} {HF[h[2]]} {val}"
    if h[0] == "raise":
        return f"HRaise {coq_cond(h[1])} {cstr(h[2])}"
    if h[0] == "dim":
        return "HDim"
    return "HShape [" + "; ".join(HF[f] for f in h[1]) + "] " + cstr(h[2])


# ----------------------------------------------------------------------------- trees: inline, evaluate, emit


def inline(ir, defs):
    if ir[0] == "loc":
        return inline(defs[ir[1]][1], defs)
    return tuple(inline(x, defs) if isinstance(x, tuple) else x for x in ir)


def used_locals(ir, defs, acc):
    if ir[0] == "loc":
        if ir[1] not in acc:
            used_locals(defs[ir[1]][1], defs, acc)
            acc.append(ir[1])
        return acc
    for x in ir[1:]:
        if isinstance(x, tuple):
            used_locals(x, defs, acc)
    return acc


def coq_q(ir):
    n, d = ir[1], ir[2]
    if d >= 2 ** 64 and d & (d - 1) == 0:
        return f"({n} # (2 ^ {d.bit_length() - 1}))"
    return f"({n} # {d})"


def coq_expr(ir):
    k = ir[0]
    if k == "vec":
        return f"({ir[1]} c)"
    if k == "loc":
        return ir[1]
    if k == "const":
        return f"(XFin {coq_q(ir[1])})"
    if k in ("add", "sub", "min", "max", "lt", "le", "eq"):
        return f"(x{k} {coq_expr(ir[1])} {coq_expr(ir[2])})"
    if k == "neg":
        return f"(xneg {coq_expr(ir[1])})"
    if k == "scale":
        return f"(xscale {coq_q(ir[1])} {coq_expr(ir[2])})"
    if k == "ite":
        return f"(if {coq_expr(ir[1])} then {coq_expr(ir[2])} else {coq_expr(ir[3])})"
    if k in ("isinf", "isfinite"):
        return f"(x{k} {coq_expr(ir[1])})"
    if k == "abs_le":
        return f"(xabs_le {coq_expr(ir[1])} {coq_q(ir[2])})"
    if k == "not":
        return f"(negb {coq_expr(ir[1])})"
    if k == "and":
        return f"({coq_expr(ir[1])} && {coq_expr(ir[2])})"
    if k == "or":
        return f"({coq_expr(ir[1])} || {coq_expr(ir[2])})"
    if k == "bneq":
        return f"(negb (Bool.eqb {coq_expr(ir[1])} {coq_expr(ir[2])}))"
    if k == "true":
        return "true"
    raise Untranslatable("IR " + repr(ir))


def coq_closed(ir, defs):
    """expression over the coordinate variable c, with the locals it needs as a let-chain (alpha-convertible: renaming a
    local of the source does not change the term)"""
    lets = used_locals(ir, defs, [])
    return "".join(f"let {s} := {coq_expr(defs[s][1])} in " for s in lets) + coq_expr(ir)


def coq_pred(ir, defs):
    return f"(fun c : coord => {coq_closed(ir, defs)})"


def coq_update(assigns, defs):
    parts = []
    for f, ir in assigns:
        flds = " ".join(f"({coq_closed(ir, defs)})" if g == f else f"({g} c)" for g in FIELDS)
        parts.append(f"let c := mkC {flds} in ")
    return "(fun c : coord => " + "".join(parts) + "c)"


def effective_bounds(prog, st):
    """the two locals the x0 clamp uses: x0 = np.maximum(np.minimum(x0, U), L)  ->  (L, U); by ROLE, not by name"""
    for step in prog:
        if step[0] == "repair" and len(step[3]) == 1 and step[3][0][0] == "cx":
            ir = step[3][0][1]
            if ir[0] == "max" and ir[1][0] == "min" and ir[1][1] == ("vec", "cx") and ir[1][2][0] == "loc" and ir[2][0] == "loc":
                return ir[2], ir[1][2]
            if ir[0] == "min" and ir[1][0] == "max" and ir[1][1] == ("vec", "cx") and ir[1][2][0] == "loc" and ir[2][0] == "loc":
                return ir[1][2], ir[2]
    for lo, hi in (("LB_eff", "UB_eff"),):
        if lo in st.env and hi in st.env and st.env[lo][0] == "num" and st.env[hi][0] == "num":
            return ("loc", st.env[lo][1]), ("loc", st.env[hi][1])
    bad("cannot identify the effective bounds (no `x0 = np.maximum(np.minimum(x0, U), L)` repair and no locals LB_eff / UB_eff)")


def tojson(ir):
    return [tojson(x) if isinstance(x, tuple) else x for x in ir]


def fromjson(j):
    return tuple(fromjson(x) if isinstance(x, list) else x for x in j)


def snapshot(prog, st, info, init):
    d = st.defs
    steps = []
    for s in prog:
        if s[0] == "test":
            steps.append(dict(kind="test", tag=s[1], disj=[tojson(inline(b, d)) for b in s[2]]))
        else:
            steps.append(dict(kind="repair", tag=s[1], disj=[tojson(inline(b, d)) for b in s[2]],
                              assigns=[[f, tojson(inline(ir, d))] for f, ir in s[3]]))
    lo, hi = effective_bounds(prog, st)
    return dict(steps=steps, lb_eff=tojson(inline(lo, d)), ub_eff=tojson(inline(hi, d)),
                shape_checked=info["shape_checked"], bc_defaults=[list(x) for x in info["bc_defaults"]],
                arg_order=info["arg_order"], return_order=info["return_order"], head=tojson(tuple(init["head"])),
                post=[list(x) for x in init["post"]])


# ---- evaluation of an inlined tree on binary64 values (NumPy semantics) — used ONLY to aim the search


def ev(ir, c):
    import numpy as np
    k = ir[0]
    with np.errstate(all="ignore"):
        if k == "vec":
            return np.float64(c[ir[1]])
        if k == "const":
            return np.float64(float(Fraction(ir[1][1], ir[1][2])))
        if k == "add":
            return ev(ir[1], c) + ev(ir[2], c)
        if k == "sub":
            return ev(ir[1], c) - ev(ir[2], c)
        if k == "neg":
            return -ev(ir[1], c)
        if k == "scale":
            return np.float64(float(Fraction(ir[1][1], ir[1][2]))) * ev(ir[2], c)
        if k == "min":
            return np.minimum(ev(ir[1], c), ev(ir[2], c))
        if k == "max":
            return np.maximum(ev(ir[1], c), ev(ir[2], c))
        if k == "ite":
            return ev(ir[2], c) if ev(ir[1], c) else ev(ir[3], c)
        if k == "lt":
            return bool(ev(ir[1], c) < ev(ir[2], c))
        if k == "le":
            return bool(ev(ir[1], c) <= ev(ir[2], c))
        if k == "eq":
            return bool(ev(ir[1], c) == ev(ir[2], c))
        if k == "isinf":
            return bool(np.isinf(ev(ir[1], c)))
        if k == "isfinite":
            return bool(np.isfinite(ev(ir[1], c)))
        if k == "abs_le":
            return bool(np.abs(ev(ir[1], c)) <= float(Fraction(ir[2][1], ir[2][2])))
        if k == "not":
            return not ev(ir[1], c)
        if k == "and":
            return ev(ir[1], c) and ev(ir[2], c)
        if k == "or":
            return ev(ir[1], c) or ev(ir[2], c)
        if k == "bneq":
            return ev(ir[1], c) != ev(ir[2], c)
        if k == "true":
            return True
    raise Untranslatable("IR " + repr(ir))


def atoms(ir, acc=None):
    """comparison nodes of a tree"""
    acc = [] if acc is None else acc
    if ir[0] in ("lt", "le", "eq"):
        acc.append(ir)
    for x in ir[1:]:
        if isinstance(x, tuple):
            atoms(x, acc)
    return acc


def constants(ir, acc=None):
    acc = set() if acc is None else acc
    if ir[0] == "q":
        acc.add(Fraction(ir[1], ir[2]))
    for x in ir[1:]:
        if isinstance(x, tuple):
            constants(x, acc)
    return acc


# ----------------------------------------------------------------------------- driver


def parse_quiet(text):
    with warnings.catch_warnings():
        warnings.simplefilter("ignore")
        return ast.parse(text)


def load():
    tree = parse_quiet((core.REPO / REL).read_text())
    cls = [n for n in tree.body if isinstance(n, ast.ClassDef) and n.name == "BADS"]
    if len(cls) != 1:
        bad("class BADS not found exactly once")
    ms = {}
    for n in cls[0].body:
        if isinstance(n, ast.FunctionDef):
            if n.name in ms:
                bad(f"method {n.name} defined twice", n)
            ms[n.name] = n
    for need in ("_bounds_check_", "__init__"):
        if need not in ms:
            bad(f"method {need} not found")
    callers = [m for m in ms.values() for n in ast.walk(m) if isinstance(n, ast.Attribute) and n.attr == "_bounds_check_" and m.name != "_bounds_check_"]
    if [m.name for m in callers] != ["__init__"]:
        bad(f"_bounds_check_ is referenced from {[m.name for m in callers]}, expected exactly once from __init__")
    prog, st, info = parse_bounds_check(ms["_bounds_check_"])
    head, post = parse_init(ms["__init__"])
    init = dict(head=head + info["head"], post=post)
    if info["return_order"] != info["arg_order"]:
        bad(f"_bounds_check_ returns the vectors in the order {info['return_order']}, not the order of its arguments")
    return prog, st, info, init


def cstr(s):
    return '"' + s.replace('"', '""') + '"'


def render(prog, st, info, init):
    d = st.defs
    lo, hi = effective_bounds(prog, st)
    L = ["(* GENERATED by translate/bounds.py from " + REL + " (BADS._bounds_check_, BADS.__init__) on every ./check run -",
         "   do not edit, never committed.  Meaning of a program: Model/BoundsSrc.v (run_prog). *)",
         "From Coq Require Import ZArith QArith List Bool String.",
         "From PV Require Import Model.XQ Model.BoundsCheck Model.BoundsSrc.",
         "Import ListNotations.", "Open Scope string_scope.", "Open Scope bool_scope.", "",
         f"Definition src_lb_eff : coord -> xq := {coq_pred(lo, d)[:-1].replace('(fun c : coord => ', 'fun c : coord => ', 1)}.",
         f"Definition src_ub_eff : coord -> xq := {coq_pred(hi, d)[:-1].replace('(fun c : coord => ', 'fun c : coord => ', 1)}.", "",
         "Definition src_prog : list step :=", "  ["]
    items = []
    for s in prog:
        if s[0] == "test":
            items.append(f"    (* l.{info['lines'].get(s[1], '?')} *) STest {cstr(s[1])}\n      [" +
                         ";\n       ".join(coq_pred(b, d) for b in s[2]) + "]")
        else:
            items.append(f"    SRepair {cstr(s[1])}\n      [" + ";\n       ".join(coq_pred(b, d) for b in s[2]) + "]\n      " +
                         coq_update(s[3], d))
    L.append(";\n".join(items))
    L += ["  ].", "", "Definition src_check (cs : list coord) : schecked := run_prog src_prog cs.", "",
          "Definition src_arg_order : list string := [" + "; ".join(cstr(x) for x in info["arg_order"]) + "].",
          "Definition src_return_order : list string := [" + "; ".join(cstr(x) for x in info["return_order"]) + "].",
          "Definition src_post_check : list (string * string * string) := [" +
          "; ".join(f"({cstr(a)}, {cstr(b)}, {cstr(c)})" for a, b, c in init["post"]) + "].", "",
          "(* BADS.__init__ up to the call of _bounds_check_, then the head of _bounds_check_ (N0 = 1) *)",
          "Definition src_head : list hstmt :=\n  [ " + ";\n    ".join(coq_hstmt(h) for h in init["head"]) + " ]."]
    return "\n".join(L) + "\n"


def emit():
    try:
        prog, st, info, init = load()
        text = render(prog, st, info, init)
        snap = snapshot(prog, st, info, init)
    except Exception as ex:
        core.write_if_changed(OUT, "(* translate/bounds.py could not translate the current source, no definition emitted:\n   %s *)\n"
                              % str(ex).replace("*)", "* )").replace("(*", "( *"))
        raise
    changed = core.write_if_changed(OUT, text)
    d = diff(snap)
    return dict(out=str(OUT.relative_to(core.VERIF)), changed=changed, steps=[(s["kind"], s["tag"]) for s in snap["steps"]],
                differs_from_reference=[x["what"] for x in d][:8])


def generated_ok():
    return OUT.exists() and MARK in OUT.read_text()


def current():
    """(snapshot or None, exception or None) of the current source, without writing anything"""
    try:
        prog, st, info, init = load()
        return snapshot(prog, st, info, init), None
    except Untranslatable as ex:
        return None, ex


def reference():
    return json.loads(REFERENCE.read_text()) if REFERENCE.exists() else None


def diff(snap, ref=None):
    """which steps of the current translation differ from the reference snapshot: [{what, tag, index, cur, ref}]"""
    ref = reference() if ref is None else ref
    if ref is None or snap is None:
        return []
    out = []
    a, b = snap["steps"], ref["steps"]
    if [(s["kind"], s["tag"]) for s in a] != [(s["kind"], s["tag"]) for s in b]:
        out.append(dict(what="order / set of tests and repairs: " + " ".join(s["tag"] for s in a) + "  (reference: " + " ".join(s["tag"] for s in b) + ")",
                        tag=None, index=None, cur=None, ref=None))
    by = {}
    for i, s in enumerate(b):
        by.setdefault((s["kind"], s["tag"]), []).append((i, s))
    for i, s in enumerate(a):
        cands = by.get((s["kind"], s["tag"]), [])
        if not cands:
            out.append(dict(what=f"new {s['kind']} {s['tag']}", tag=s["tag"], index=i, cur=s, ref=None))
            continue
        j, r = cands.pop(0)
        if s != r:
            out.append(dict(what=f"{s['kind']} {s['tag']} (step {i}) differs from the reference", tag=s["tag"], index=i, cur=s, ref=r))
    for (kind, tag), rest in by.items():
        for j, r in rest:
            out.append(dict(what=f"{kind} {tag} of the reference is gone", tag=tag, index=None, cur=None, ref=r))
    for k in ("lb_eff", "ub_eff"):
        if snap[k] != ref[k]:
            out.append(dict(what=f"{k} differs from the reference", tag=k, index=None, cur=dict(kind="expr", tag=k, disj=[], expr=snap[k]),
                            ref=dict(kind="expr", tag=k, disj=[], expr=ref[k])))
    for k in ("arg_order", "return_order", "post"):
        if snap[k] != ref[k]:
            out.append(dict(what=f"{k}: {snap[k]} (reference {ref[k]})", tag=k, index=None, cur=None, ref=None))
    if snap["head"] != ref["head"]:
        a, b = snap["head"], ref["head"]
        i = next((i for i in range(min(len(a), len(b))) if a[i] != b[i]), min(len(a), len(b)))
        out.append(dict(what=f"head (BADS.__init__ defaults / head of _bounds_check_), statement {i}: "
                             f"{a[i] if i < len(a) else 'missing'} (reference {b[i] if i < len(b) else 'none'})", tag="head", index=i, cur=None, ref=None))
    return out


if __name__ == "__main__":
    if "--write-reference" in sys.argv:
        prog, st, info, init = load()
        REFERENCE.write_text(json.dumps(snapshot(prog, st, info, init), indent=1) + "\n")
        print("wrote", REFERENCE)
    else:
        print(emit())
        print(OUT.read_text())
