"""Translator for C20: the two option .ini files  ->  coq/gen/Src_options.v   (DESIGN 2a, fail closed).

Reads both files WITH THE SAME PARSING RULES as pybads.bads.options._read_config_file
(configparser, comment_prefixes="", allow_no_value=True, optionxform=str; a key containing "#" is a
description line) and analyses every default expression with Python's `ast`:

  free names of the expression  =  ast.Name ids not bound by a lambda / comprehension inside it.
  They must lie in the allowed set {np, D, self} + a short whitelist of pure builtins.
  `self` may only be used as  self.get("<const>")  or  self["<const>"]   -> dependency on that key.
  `D` or `self` inside a lambda / generator expression (deferred evaluation: the value would read
  the module-global D when CALLED, not when the file is loaded) -> Untranslatable.
  `self` inside any nested scope, np.random.*, walrus, await/yield, starred args, f-strings with
  free names outside the set ... -> Untranslatable.

What is emitted is a LIST (the load-order model of Model/Options.v treats each default as an
uninterpreted function of its free names' current values):
   basic_entries, advanced_entries : list (string * list string)   (key, sorted free names in {"D"} + keys)
   depends_on_D : list string
An abort (Untranslatable or any parser error) is a broken tie, never a pass.
"""
from __future__ import annotations

import ast
import configparser
import hashlib
import os
from pathlib import Path

REPO = Path(os.environ.get("VERIF_REPO", "/repo"))
VERIF = Path(__file__).resolve().parent.parent
OUT = VERIF / "coq" / "gen" / "Src_options.v"

BASIC = "pybads/bads/option_configs/basic_bads_options.ini"
ADVANCED = "pybads/bads/option_configs/advanced_bads_options.ini"

# names an expression may mention freely (module globals of options.py that are pure + pure builtins)
PURE_BUILTINS = {"int", "float", "abs", "min", "max", "round", "len", "range", "sum", "tuple", "list",
                 "dict", "set", "str", "bool", "pow", "divmod", "sorted", "complex"}
ALLOWED = {"np", "D", "self"} | PURE_BUILTINS
RESERVED_KEYS = {"D", "useroptions"}


class Untranslatable(Exception):
    pass


def read_config(path) -> list[tuple[str, str, str]]:
    """Same rules as options._read_config_file; returns [(key, value, description)] in file order."""
    conf = configparser.ConfigParser(comment_prefixes="", allow_no_value=True)
    conf.optionxform = str
    got = conf.read(str(path))
    if not got:
        raise Untranslatable(f"option file not readable: {path}")
    out, description = [], ""
    for section in conf.sections():
        for (key, value) in conf.items(section):
            if "#" in key:
                description = key.strip("# ")
            else:
                out.append((key, value, description))
                description = ""
    if not out:
        raise Untranslatable(f"option file {path} contains no options")
    return out


class _Scan(ast.NodeVisitor):
    """Collects dependencies; raises Untranslatable outside the accepted grammar."""

    def __init__(self, key):
        self.key = key
        self.bound: list[set[str]] = []      # stack of names bound by enclosing lambdas/comprehensions
        self.deferred = 0                    # > 0 inside a lambda body / generator expression
        self.nested = 0                      # > 0 inside any nested scope
        self.deps: set[str] = set()

    def bad(self, why):
        raise Untranslatable(f"default of option {self.key!r}: {why}")

    def is_bound(self, name):
        return any(name in s for s in self.bound)

    # --- names
    def visit_Name(self, node):
        if not isinstance(node.ctx, ast.Load):
            self.bad(f"name {node.id!r} is assigned/deleted inside the expression")
        if self.is_bound(node.id):
            return
        if node.id not in ALLOWED:
            self.bad(f"free name {node.id!r} is outside the allowed set")
        if node.id == "self":
            self.bad("`self` used other than as self.get(\"key\") / self[\"key\"]")
        if node.id == "D":
            if self.deferred:
                self.bad("`D` inside a lambda/generator: it would be read from the module global when called, not when loaded")
            self.deps.add("D")

    def _self_key(self, node):
        """node is self.get("k") / self["k"] -> k, else None."""
        if isinstance(node, ast.Call) and isinstance(node.func, ast.Attribute) and \
                isinstance(node.func.value, ast.Name) and node.func.value.id == "self" and not self.is_bound("self"):
            if node.func.attr != "get" or node.keywords or len(node.args) != 1 or \
                    not (isinstance(node.args[0], ast.Constant) and isinstance(node.args[0].value, str)):
                self.bad("`self` may only be used as self.get(\"<constant key>\")")
            return node.args[0].value
        if isinstance(node, ast.Subscript) and isinstance(node.value, ast.Name) and node.value.id == "self" \
                and not self.is_bound("self"):
            if not isinstance(node.ctx, ast.Load):
                self.bad("the expression writes into the options object")
            sl = node.slice
            if not (isinstance(sl, ast.Constant) and isinstance(sl.value, str)):
                self.bad("`self[...]` with a non-constant key")
            return sl.value
        return None

    def _dep(self, k):
        if self.nested:
            self.bad("`self` inside a lambda/comprehension (eval's locals are not visible there / deferred read)")
        if k in RESERVED_KEYS:
            self.bad(f"reads the reserved name {k!r} from the options object")
        self.deps.add(k)

    def visit_Call(self, node):
        k = self._self_key(node)
        if k is not None:
            self._dep(k)
            return
        for a in node.args:
            if isinstance(a, ast.Starred):
                self.bad("starred call argument")
        for kw in node.keywords:
            if kw.arg is None:
                self.bad("** call argument")
        self.generic_visit(node)

    def visit_Subscript(self, node):
        k = self._self_key(node)
        if k is not None:
            self._dep(k)
            return
        self.generic_visit(node)

    def visit_Attribute(self, node):
        # attribute chains rooted at np are fine, except the stateful np.random
        chain, n = [], node
        while isinstance(n, ast.Attribute):
            chain.append(n.attr)
            n = n.value
        if isinstance(n, ast.Name) and n.id == "np" and not self.is_bound("np"):
            if chain[-1] == "random":
                self.bad("np.random (process-global state) in a default")
            if any(a.startswith("_") for a in chain):
                self.bad("private numpy attribute")
            return
        if any(a.startswith("__") for a in chain):
            self.bad("dunder attribute access")
        self.generic_visit(node)

    # --- scopes
    def visit_Lambda(self, node):
        a = node.args
        names = {x.arg for x in a.posonlyargs + a.args + a.kwonlyargs}
        if a.vararg:
            names.add(a.vararg.arg)
        if a.kwarg:
            names.add(a.kwarg.arg)
        self.deferred += 1
        self.nested += 1
        for d in list(a.defaults) + [d for d in a.kw_defaults if d is not None]:
            self.visit(d)               # treated as deferred too (conservative)
        self.bound.append(names)
        self.visit(node.body)
        self.bound.pop()
        self.nested -= 1
        self.deferred -= 1

    def _comp(self, node, elts, lazy):
        names = set()
        for g in node.generators:
            if g.is_async:
                self.bad("async comprehension")
            for t in ast.walk(g.target):
                if isinstance(t, ast.Name):
                    names.add(t.id)
        self.nested += 1
        self.deferred += 1 if lazy else 0
        self.bound.append(names)
        for g in node.generators:
            self.visit(g.iter)
            for c in g.ifs:
                self.visit(c)
        for e in elts:
            self.visit(e)
        self.bound.pop()
        self.deferred -= 1 if lazy else 0
        self.nested -= 1

    def visit_ListComp(self, node):
        self._comp(node, [node.elt], False)

    def visit_SetComp(self, node):
        self._comp(node, [node.elt], False)

    def visit_DictComp(self, node):
        self._comp(node, [node.key, node.value], False)

    def visit_GeneratorExp(self, node):
        self._comp(node, [node.elt], True)

    # --- forbidden forms
    def visit_NamedExpr(self, node):
        self.bad("assignment expression (:=)")

    def visit_Await(self, node):
        self.bad("await")

    def visit_Yield(self, node):
        self.bad("yield")

    def visit_YieldFrom(self, node):
        self.bad("yield from")


def analyse(key: str, value) -> list[str]:
    """Sorted free names of the default expression, within {"D"} + option keys read through self."""
    if value is None:
        raise Untranslatable(f"option {key!r} has no value (eval(None) raises)")
    try:
        tree = ast.parse(value.strip(), mode="eval")
    except SyntaxError as ex:
        raise Untranslatable(f"default of option {key!r} is not a Python expression: {ex.msg}")
    sc = _Scan(key)
    sc.visit(tree.body)
    return sorted(sc.deps)


def coq_str(s: str) -> str:
    if any(ord(c) < 32 or ord(c) > 126 for c in s):
        raise Untranslatable(f"non-printable / non-ASCII character in name {s!r}")
    return '"' + s.replace('"', '""') + '"'


def coq_entries(entries) -> str:
    rows = ["  (" + coq_str(k) + ", [" + "; ".join(coq_str(d) for d in deps) + "])" for k, deps in entries]
    return "[\n" + ";\n".join(rows) + "\n]"


def load(repo: Path = None):
    """-> dict(basic=[(key, value_text, deps)], advanced=[...])  (used by the harness too, so model and
    harness see the same parse)."""
    repo = Path(repo) if repo else REPO
    res = {}
    for name, rel in (("basic", BASIC), ("advanced", ADVANCED)):
        rows = read_config(repo / rel)
        out = []
        for key, value, _ in rows:
            if key in RESERVED_KEYS:
                raise Untranslatable(f"option file defines the reserved name {key!r}")
            out.append((key, value, analyse(key, value)))
        res[name] = out
    allkeys = {k for rows in res.values() for k, _, _ in rows}
    for rows in res.values():
        for k, _, deps in rows:
            for d in deps:
                if d != "D" and d not in allkeys:
                    raise Untranslatable(f"default of option {k!r} reads {d!r}, which no option file defines")
    return res


def emit(repo: Path = None):
    repo = Path(repo) if repo else REPO
    try:
        res = load(repo)
    except Exception:
        for ext in (".v", ".vo", ".vos", ".vok", ".glob"):      # fail closed: never leave a stale translation
            f = OUT.with_suffix(ext)                              # (source or compiled) for the proofs to use
            if f.exists():
                f.unlink()
        raise
    h = hashlib.sha256()
    for rel in (BASIC, ADVANCED):
        h.update((repo / rel).read_bytes())
    basic = [(k, d) for k, _, d in res["basic"]]
    adv = [(k, d) for k, _, d in res["advanced"]]
    dep_d = [k for k, d in basic + adv if "D" in d]
    text = (
        "(* GENERATED by translate/options.py from the two option .ini files of the checked tree\n"
        f"   (sha256 of both files: {h.hexdigest()[:16]}).  Do not edit; rewritten by every ./check C20. *)\n"
        "From Coq Require Import List String.\nImport ListNotations.\nOpen Scope string_scope.\n\n"
        "Definition basic_entries : list (string * list string) := " + coq_entries(basic) + ".\n\n"
        "Definition advanced_entries : list (string * list string) := " + coq_entries(adv) + ".\n\n"
        "Definition depends_on_D : list string := [" + "; ".join(coq_str(k) for k in dep_d) + "].\n"
    )
    OUT.parent.mkdir(parents=True, exist_ok=True)
    if not OUT.exists() or OUT.read_text() != text:
        OUT.write_text(text)
    option_deps = {k: [x for x in d if x != "D"] for k, d in basic + adv if any(x != "D" for x in d)}
    return dict(basic=len(basic), advanced=len(adv), depends_on_D=len(dep_d), option_dependencies=option_deps,
                files_sha=h.hexdigest()[:16])


if __name__ == "__main__":
    print(emit())
