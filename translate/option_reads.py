"""Census of every place where pybads READS (or writes) an option  ->  .cache/option_reads.json   (fail closed).

Used by C09's option-mode matrix (harness/run_optmatrix.py): an option that no code reads is DEAD and needs no runs;
for a LIVE option the way it is used (flag, size/index, float, compared with a constant, called, ...) drives the set
of alternative valid values that are run.

What denotes "the options object" (tracked by a small inter-procedural taint analysis over `ast`):
  * `self.options` inside class BADS (bads/bads.py) and `bads.options` where `bads` is a function parameter;
  * every function parameter named `options` / `options_dict` of the scanned files  (except BADS.__init__'s, which is
    the caller's plain dict and is only forwarded to Options(...));
  * a parameter that receives a tainted expression at a call site of a function/class defined in the scanned files,
    a local name or a `self.<attr>` a tainted expression is assigned to.
What a tainted expression may be used for (anything else raises Unclassified -> the translator obligation fails):
  T["const"] (load -> READ, store/augmented store -> WRITE), T.get("const"[, default]) -> READ, "const" in T -> READ
  (membership), T.load_options_file(..) / T.validate_option_names(..) (structural), passing T to a function of the
  scanned files, assigning T to a local / self attribute, `self.options = Options(...)`.
Every READ is classified by its syntactic context (see `classify`); a context outside the list raises Unclassified.
A local alias (`noise_size = options["noise_size"]`) is followed one level: every load of the alias name in the same
function is classified as a use of the option ("via <name>").

Reads inside the default expressions of the two ini files (`self.get("tol_fun")`) come from translate/options.py.
The census is VALIDATED on every run by the harness: the real Options.__getitem__ is instrumented during the matrix
runs and every (option, file, function) read observed must be in this census (harness/run_optmatrix.validate_census).
"""
from __future__ import annotations

import ast
import hashlib
import json
import os
from pathlib import Path

REPO = Path(os.environ.get("VERIF_REPO", "/repo"))
VERIF = Path(__file__).resolve().parent.parent
OUT = VERIF / ".cache" / "option_reads.json"

# files never scanned: the repository's tests, and the Options container itself (C20's subject; it reads keys generically)
EXCLUDE_DIRS = {"testing", "__pycache__"}
EXCLUDE_FILES = {"pybads/bads/options.py"}
OPTION_PARAM_NAMES = {"options", "options_dict"}
# (file, function) whose parameter `options` is NOT the Options object
PLAIN_DICT_PARAMS = {("pybads/bads/bads.py", "BADS.__init__", "options")}
STRUCTURAL_METHODS = {"load_options_file", "validate_option_names"}
# constructors/functions outside the scanned files that may receive the caller's plain dict (never the Options object)
SIZE_CALLS = {"range", "np.empty", "np.zeros", "np.ones", "np.full", "np.arange"}
CONVERSIONS = {"int": "int", "float": "float", "bool": "flag", "len": "len", "isinstance": "typecheck", "callable": "typecheck",
               "np.isscalar": "typecheck", "np.size": "len", "np.isfinite": "finite_test", "np.array": "array"}


class Unclassified(Exception):
    pass


def _name_of(node) -> str:
    """dotted name of a call target, '' if it is not a plain dotted name"""
    parts = []
    while isinstance(node, ast.Attribute):
        parts.append(node.attr)
        node = node.value
    if isinstance(node, ast.Name):
        parts.append(node.id)
        return ".".join(reversed(parts))
    if isinstance(node, ast.Call) and isinstance(node.func, ast.Name) and node.func.id == "super" and parts:
        return "super()." + ".".join(reversed(parts))
    return ""


def _src(node) -> str:
    try:
        return ast.unparse(node)
    except Exception:      # pragma: no cover
        return "<?>"


class _Func:
    def __init__(self, rel, cls, node):
        self.rel, self.cls, self.node = rel, cls, node
        self.qual = (cls + "." if cls else "") + node.name
        a = node.args
        self.params = [x.arg for x in a.posonlyargs + a.args]
        self.kwonly = [x.arg for x in a.kwonlyargs]
        self.tainted_locals: set[str] = set()
        self.parents = {}
        for p in ast.walk(node):
            for c in ast.iter_child_nodes(p):
                self.parents[c] = p

    def key(self):
        return (self.rel, self.qual)


class Census:
    def __init__(self, repo: Path):
        self.repo = Path(repo)
        self.funcs: list[_Func] = []
        self.by_name: dict[str, list[_Func]] = {}
        self.classes: dict[str, tuple[str, ast.ClassDef]] = {}
        self.tainted_attrs: set[tuple[str, str]] = {("BADS", "options")}
        self.reads: list[dict] = []
        self.writes: list[dict] = []
        self.sha = hashlib.sha256()
        self.files = []

    # ------------------------------------------------------------------ loading
    def load(self):
        root = self.repo / "pybads"
        if not root.is_dir():
            raise Unclassified(f"{root} is not a directory")
        for p in sorted(root.rglob("*.py")):
            rel = str(p.relative_to(self.repo))
            if any(part in EXCLUDE_DIRS for part in p.parts) or rel in EXCLUDE_FILES:
                continue
            src = p.read_bytes()
            self.sha.update(rel.encode())
            self.sha.update(src)
            self.files.append(rel)
            tree = ast.parse(src.decode(), filename=rel)
            self._collect(rel, tree)
        if not any(f.rel == "pybads/bads/bads.py" and f.cls == "BADS" for f in self.funcs):
            raise Unclassified("class BADS not found in pybads/bads/bads.py")

    def _collect(self, rel, tree):
        def walk(body, cls):
            for n in body:
                if isinstance(n, (ast.FunctionDef, ast.AsyncFunctionDef)):
                    f = _Func(rel, cls, n)
                    self.funcs.append(f)
                    self.by_name.setdefault(n.name, []).append(f)
                    for inner in ast.walk(n):
                        if inner is not n and isinstance(inner, (ast.FunctionDef, ast.AsyncFunctionDef, ast.ClassDef)):
                            # nested defs are scanned as part of the enclosing function (same taint scope)
                            pass
                elif isinstance(n, ast.ClassDef):
                    if cls is not None:
                        raise Unclassified(f"{rel}: nested class {n.name}")
                    self.classes[n.name] = (rel, n)
                    walk(n.body, n.name)
                elif isinstance(n, (ast.If, ast.Try, ast.With)):
                    walk(getattr(n, "body", []), cls)
        walk(tree.body, None)
        # module-level code must not touch anything that looks like the options object
        for n in tree.body:
            if isinstance(n, (ast.FunctionDef, ast.AsyncFunctionDef, ast.ClassDef)):
                continue
            for x in ast.walk(n):
                if isinstance(x, ast.Attribute) and x.attr == "options":
                    raise Unclassified(f"{rel}: module-level use of .options at line {x.lineno}")

    # ------------------------------------------------------------------ taint
    def is_tainted(self, f: _Func, node) -> bool:
        if isinstance(node, ast.Name):
            if node.id in f.tainted_locals:
                return True
            if node.id in OPTION_PARAM_NAMES and (node.id in f.params or node.id in f.kwonly) and \
                    (f.rel, f.qual, node.id) not in PLAIN_DICT_PARAMS:
                return True
            return False
        if isinstance(node, ast.Attribute):
            if isinstance(node.value, ast.Name) and node.value.id == "self" and f.cls and (f.cls, node.attr) in self.tainted_attrs:
                return True
            if self._mro_attr(f, node):
                return True
            if node.attr == "options":
                if isinstance(node.value, ast.Name) and node.value.id == "bads" and "bads" in f.params:
                    return True
                if isinstance(node.value, ast.Name) and node.value.id == "self" and f.cls == "BADS":
                    return True
                raise Unclassified(f"{f.rel}:{node.lineno} {f.qual}: `.options` of an unknown holder: {_src(node)}")
        return False

    def _mro_attr(self, f, node):
        """self.<attr> tainted in a base class"""
        if not (isinstance(node.value, ast.Name) and node.value.id == "self" and f.cls):
            return False
        seen, todo = set(), [f.cls]
        while todo:
            c = todo.pop()
            if c in seen or c not in self.classes:
                continue
            seen.add(c)
            if (c, node.attr) in self.tainted_attrs:
                return True
            for b in self.classes[c][1].bases:
                if isinstance(b, ast.Name):
                    todo.append(b.id)
        return False

    def _resolve(self, f: _Func, call: ast.Call):
        """-> the _Func a call goes to (functions / classes of the scanned files), or None"""
        name = _name_of(call.func)
        if not name:
            return None
        last = name.split(".")[-1]
        if name.startswith("super()."):
            rel, cdef = self.classes[f.cls]
            for b in cdef.bases:
                if isinstance(b, ast.Name) and b.id in self.classes:
                    cands = [g for g in self.by_name.get(last, []) if g.cls == b.id]
                    if cands:
                        return cands[0]
            return None
        if last in self.classes and "." not in name:
            cands = [g for g in self.by_name.get("__init__", []) if g.cls == last]
            if cands:
                return cands[0]
            # inherited constructor
            for b in self.classes[last][1].bases:
                if isinstance(b, ast.Name):
                    cands = [g for g in self.by_name.get("__init__", []) if g.cls == b.id]
                    if cands:
                        return cands[0]
            return None
        if name.startswith("self.") and name.count(".") == 1:
            cands = [g for g in self.by_name.get(last, []) if g.cls == f.cls]
            return cands[0] if len(cands) == 1 else None
        if "." not in name:
            cands = [g for g in self.by_name.get(last, []) if g.cls is None]
            if len(cands) > 1:
                raise Unclassified(f"{f.rel}:{call.lineno}: call target {name} is ambiguous among the scanned files")
            return cands[0] if cands else None
        return None

    def _pass_to(self, f, call, idx=None, kw=None):
        g = self._resolve(f, call)
        name = _name_of(call.func)
        if g is None:
            if name == "Options" or name.endswith(".Options"):
                return False      # the caller's dict handed to the container's constructor
            raise Unclassified(f"{f.rel}:{call.lineno} {f.qual}: the options object is passed to {name or _src(call.func)}, "
                               "which is not a function of the scanned files")
        params = list(g.params)
        if g.cls is not None and params and params[0] in ("self", "cls"):
            params = params[1:]
        if kw is not None:
            if kw not in params and kw not in g.kwonly:
                raise Unclassified(f"{f.rel}:{call.lineno}: keyword {kw} is not a parameter of {g.qual}")
            p = kw
        else:
            if idx >= len(params):
                raise Unclassified(f"{f.rel}:{call.lineno}: positional argument {idx} beyond the parameters of {g.qual}")
            p = params[idx]
        if p in OPTION_PARAM_NAMES:
            return False          # already a root by name
        if p not in g.tainted_locals:
            g.tainted_locals.add(p)
            return True
        return False

    def propagate(self):
        """fixpoint over parameter / local / attribute taints; also checks every use of a tainted expression"""
        for _ in range(20):
            changed = False
            for f in self.funcs:
                for node in ast.walk(f.node):
                    if isinstance(node, (ast.Name, ast.Attribute)) and self.is_tainted(f, node):
                        changed |= self._use(f, node, record=False)
            if not changed:
                break
        else:
            raise Unclassified("taint propagation did not reach a fixpoint")
        self.reads, self.writes = [], []
        for f in self.funcs:
            for node in ast.walk(f.node):
                if isinstance(node, (ast.Name, ast.Attribute)) and self.is_tainted(f, node):
                    self._use(f, node, record=True)

    # ------------------------------------------------------------------ one use of a tainted expression
    def _use(self, f: _Func, node, record: bool) -> bool:
        par = f.parents.get(node)
        where = f"{f.rel}:{getattr(node, 'lineno', 0)} {f.qual}"
        if isinstance(node, (ast.Name, ast.Attribute)) and isinstance(getattr(node, "ctx", None), ast.Store):
            return False          # `self.options = Options(...)`, `options = ...`: binding, not a use
        if isinstance(par, ast.Subscript) and par.value is node:
            sl = par.slice
            if not (isinstance(sl, ast.Constant) and isinstance(sl.value, str)):
                raise Unclassified(f"{where}: option read with a non-constant key: {_src(par)}")
            if isinstance(par.ctx, ast.Load):
                if record:
                    self._read(f, sl.value, par, "subscript")
            elif isinstance(par.ctx, ast.Store):
                if record:
                    gp = f.parents.get(par)
                    kind = "augmented" if isinstance(gp, ast.AugAssign) else "assign"
                    val = _src(gp.value) if isinstance(gp, (ast.Assign, ast.AugAssign)) and gp.value is not None else "?"
                    self.writes.append(dict(option=sl.value, file=f.rel, function=f.qual, line=par.lineno, kind=kind, value=val[:120]))
                    if isinstance(gp, ast.AugAssign):
                        self._add_read(f, sl.value, par, "subscript", [dict(kind="arith", detail="augmented assignment")])
            else:
                raise Unclassified(f"{where}: option deleted: {_src(par)}")
            return False
        if isinstance(par, ast.Attribute) and par.value is node:
            call = f.parents.get(par)
            if par.attr == "get":
                if not (isinstance(call, ast.Call) and call.func is par and call.args and isinstance(call.args[0], ast.Constant)
                        and isinstance(call.args[0].value, str) and len(call.args) <= 2 and not call.keywords):
                    raise Unclassified(f"{where}: options.get with a non-constant key or unusual arguments: {_src(call or par)}")
                if record:
                    self._read(f, call.args[0].value, call, "get" if len(call.args) == 1 else "get_default")
                return False
            if par.attr in STRUCTURAL_METHODS and isinstance(call, ast.Call) and call.func is par:
                return False
            raise Unclassified(f"{where}: attribute {par.attr!r} of the options object is outside the whitelist")
        if isinstance(par, ast.Compare) and node in par.comparators and len(par.ops) == 1 and isinstance(par.ops[0], (ast.In, ast.NotIn)) \
                and isinstance(par.left, ast.Constant) and isinstance(par.left.value, str):
            if record:
                self._add_read(f, par.left.value, par, "membership", [dict(kind="membership", detail=_src(par))])
            return False
        if isinstance(par, ast.Call) and node in par.args:
            return self._pass_to(f, par, idx=par.args.index(node))
        if isinstance(par, ast.keyword):
            call = f.parents.get(par)
            if isinstance(call, ast.Call) and par.arg is not None:
                return self._pass_to(f, call, kw=par.arg)
        if isinstance(par, ast.Assign) and par.value is node and len(par.targets) == 1:
            t = par.targets[0]
            if isinstance(t, ast.Name):
                if t.id not in f.tainted_locals and t.id not in OPTION_PARAM_NAMES:
                    f.tainted_locals.add(t.id)
                    return True
                return False
            if isinstance(t, ast.Attribute) and isinstance(t.value, ast.Name) and t.value.id == "self" and f.cls:
                if (f.cls, t.attr) not in self.tainted_attrs:
                    self.tainted_attrs.add((f.cls, t.attr))
                    return True
                return False
        raise Unclassified(f"{where}: the options object is used in a form outside the whitelist: {_src(par) if par is not None else _src(node)}"[:300])

    # ------------------------------------------------------------------ classification of a read
    def _read(self, f, key, node, form):
        self._add_read(f, key, node, form, self.classify(f, node, key))

    def _add_read(self, f, key, node, form, uses):
        self.reads.append(dict(option=key, file=f.rel, function=f.qual, line=node.lineno, form=form, uses=uses,
                               text=_src(f.parents.get(node) if not isinstance(f.parents.get(node), (ast.FunctionDef, ast.Module)) else node)[:160]))

    def classify(self, f: _Func, node, key, via=None, depth=0) -> list[dict]:
        """-> list of dict(kind, detail); raises Unclassified for a context outside the list"""
        par = f.parents.get(node)
        where = f"{f.rel}:{node.lineno} {f.qual}: option {key!r}"

        def u(kind, detail=""):
            d = dict(kind=kind, detail=str(detail)[:120])
            if via:
                d["via"] = via
            return [d]

        if isinstance(par, ast.Compare):
            sides = [par.left] + list(par.comparators)
            i = next(k for k, s in enumerate(sides) if s is node)
            out = []
            for j, op in enumerate(par.ops):
                if i not in (j, j + 1):
                    continue
                other = sides[j + 1] if i == j else sides[j]
                if isinstance(op, (ast.Eq, ast.NotEq)):
                    if isinstance(other, ast.Constant):
                        out += u("eq_const", repr(other.value))
                    else:
                        out += u("eq_expr", _src(other))
                elif isinstance(op, (ast.Is, ast.IsNot)):
                    if isinstance(other, ast.Constant) and other.value is None:
                        out += u("is_none")
                    else:
                        out += u("identity", _src(other))
                elif isinstance(op, (ast.Lt, ast.LtE, ast.Gt, ast.GtE)):
                    out += u("order", _src(par))
                elif isinstance(op, (ast.In, ast.NotIn)):
                    if i == j:
                        d = u("member_of", _src(other))
                        vals = self._const_list(f, other)
                        if vals is not None:
                            d[0]["values"] = vals
                        out += d
                    else:
                        out += u("container", _src(other))
            if not out:
                raise Unclassified(f"{where}: comparison form {_src(par)}")
            return out
        if isinstance(par, (ast.If, ast.While, ast.IfExp)) and par.test is node:
            return u("flag", "test")
        if isinstance(par, ast.BoolOp):
            return u("flag", type(par.op).__name__.lower())
        if isinstance(par, ast.UnaryOp):
            if isinstance(par.op, ast.Not):
                return u("flag", "not")
            if isinstance(par.op, ast.Invert):
                return u("bitflag", "~ (bitwise not: True -> -2, False -> -1)")
            if isinstance(par.op, (ast.USub, ast.UAdd)):
                return u("arith", "unary")
        if isinstance(par, ast.BinOp):
            role = "left" if par.left is node else "right"
            if isinstance(par.op, (ast.BitOr, ast.BitAnd, ast.BitXor)):
                return u("bitflag", type(par.op).__name__)
            if isinstance(par.op, ast.Pow):
                return u("arith", "pow-base" if role == "left" else "pow-exponent")
            if isinstance(par.op, (ast.Div, ast.FloorDiv, ast.Mod)) and role == "right":
                return u("arith", "divisor")
            return u("arith", type(par.op).__name__ + "-" + role)
        if isinstance(par, ast.AugAssign) and par.value is node:
            return u("arith", "augmented into " + _src(par.target))
        if isinstance(par, ast.Call):
            if par.func is node:
                return u("called", f"{len(par.args)} positional arguments")
            name = _name_of(par.func) or _src(par.func)
            if node in par.args:
                pos = par.args.index(node)
                if name in SIZE_CALLS:
                    return u("size", name)
                if name in CONVERSIONS:
                    c = CONVERSIONS[name]
                    if c in ("int", "float", "array") and depth < 3:      # the converted value is what is used: look one level up
                        try:
                            return u(c, name) + self.classify(f, par, key, via=via, depth=depth + 1)
                        except Unclassified:
                            return u(c, name)
                    return u(c, name)
                g = None
                try:
                    g = self._resolve(f, par)
                except Unclassified:
                    g = None
                if g is not None:
                    out = u("passed_to", f"{g.qual} argument {pos}")
                    params = list(g.params)
                    if g.cls is not None and params and params[0] in ("self", "cls"):
                        params = params[1:]
                    if pos < len(params) and depth < 2:
                        out += self._follow_name(g, params[pos], key, f"{g.qual}:{params[pos]}", depth)
                    return out
                return u("arg", f"{name} argument {pos}")
            raise Unclassified(f"{where}: call form {_src(par)}")
        if isinstance(par, ast.keyword):
            call = f.parents.get(par)
            return u("arg", f"{_name_of(call.func) or _src(call.func)} keyword {par.arg}")
        if isinstance(par, ast.Subscript):
            if par.value is node:
                return u("indexed", f"[{_src(par.slice)}]")
            return u("index", _src(par))
        if isinstance(par, (ast.Slice, ast.Index if hasattr(ast, "Index") else ast.Slice)):
            return u("index", _src(f.parents.get(par)))
        if isinstance(par, ast.Attribute) and par.value is node:
            return u("method", "." + par.attr)
        if isinstance(par, (ast.List, ast.Tuple)) and depth < 3:
            inner = self.classify(f, par, key, via=via, depth=depth + 1)
            for d in inner:
                d["detail"] = ("element of a sequence; " + d["detail"])[:120]
            return inner
        if isinstance(par, (ast.FormattedValue, ast.JoinedStr)):
            return u("format")
        if isinstance(par, ast.Return):
            return u("returned")
        if isinstance(par, ast.Starred):
            raise Unclassified(f"{where}: starred")
        if isinstance(par, (ast.Assign, ast.AnnAssign)) and par.value is node:
            targets = par.targets if isinstance(par, ast.Assign) else [par.target]
            if len(targets) != 1:
                raise Unclassified(f"{where}: chained assignment")
            t = targets[0]
            if isinstance(t, ast.Name):
                if via is not None or depth > 0:
                    return u("alias", t.id)
                out = u("alias", t.id)
                loads = [n for n in ast.walk(f.node) if isinstance(n, ast.Name) and n.id == t.id and isinstance(n.ctx, ast.Load)]
                for n in loads:
                    try:
                        out += self.classify(f, n, key, via=t.id, depth=1)
                    except Unclassified as ex:
                        raise Unclassified(f"{ex} (through the local alias {t.id!r})")
                return out
            out = u("stored", _src(t))
            if depth < 2:
                out += self._follow_store(f, t, key, depth)
            return out
        raise Unclassified(f"{where}: read in a context outside the classification: {type(par).__name__}: {_src(par)[:120] if par is not None else ''}")


    # ------------------------------------------------------------------ following a stored / passed value (bounded depth)
    def _const_list(self, f, node):
        if isinstance(node, (ast.List, ast.Tuple, ast.Set)) and all(isinstance(e, ast.Constant) for e in node.elts):
            return [e.value for e in node.elts]
        if isinstance(node, ast.Name):
            for n in ast.walk(f.node):
                if isinstance(n, ast.Assign) and len(n.targets) == 1 and isinstance(n.targets[0], ast.Name) and n.targets[0].id == node.id:
                    return self._const_list(f, n.value) if not isinstance(n.value, ast.Name) else None
        return None

    def _follow_name(self, g: _Func, name, key, via, depth):
        out = []
        for n in ast.walk(g.node):
            if isinstance(n, ast.Name) and n.id == name and isinstance(n.ctx, ast.Load):
                try:
                    out += self.classify(g, n, key, via=via, depth=depth + 1)
                except Unclassified as ex:
                    raise Unclassified(f"{ex} (following {via})")
        return out

    def _follow_store(self, f: _Func, target, key, depth):
        """the value was stored into self.<attr> or <...optim_state>["k"]: classify the loads of that place"""
        out = []
        if isinstance(target, ast.Attribute) and isinstance(target.value, ast.Name) and target.value.id == "self" and f.cls:
            family = {f.cls}
            for _ in range(4):
                for c, (_, cdef) in self.classes.items():
                    if any(isinstance(b, ast.Name) and b.id in family for b in cdef.bases):
                        family.add(c)
            for g in self.funcs:
                if g.cls in family:
                    for n in ast.walk(g.node):
                        if isinstance(n, ast.Attribute) and n.attr == target.attr and isinstance(n.ctx, ast.Load) and \
                                isinstance(n.value, ast.Name) and n.value.id == "self":
                            try:
                                out += self.classify(g, n, key, via=f"self.{target.attr}", depth=depth + 1)
                            except Unclassified as ex:
                                raise Unclassified(f"{ex} (following self.{target.attr})")
            return out
        if isinstance(target, ast.Subscript) and isinstance(target.slice, ast.Constant) and isinstance(target.slice.value, str) and \
                _name_of(target.value).split(".")[-1] == "optim_state":
            k = target.slice.value
            for g in self.funcs:
                for n in ast.walk(g.node):
                    hit = None
                    if isinstance(n, ast.Subscript) and isinstance(n.ctx, ast.Load) and isinstance(n.slice, ast.Constant) and n.slice.value == k \
                            and _name_of(n.value).split(".")[-1] == "optim_state":
                        hit = n
                    elif isinstance(n, ast.Call) and isinstance(n.func, ast.Attribute) and n.func.attr == "get" and n.args and \
                            isinstance(n.args[0], ast.Constant) and n.args[0].value == k and _name_of(n.func.value).split(".")[-1] == "optim_state":
                        hit = n
                    if hit is not None:
                        try:
                            out += self.classify(g, hit, key, via=f"optim_state[{k!r}]", depth=depth + 1)
                        except Unclassified as ex:
                            raise Unclassified(f"{ex} (following optim_state[{k!r}])")
            return out
        return out


# --------------------------------------------------------------------------- ini side (defaults reading other options)

def ini_reads(repo: Path):
    from translate import options as TO
    res = TO.load(repo)
    keys, reads = [], []
    for name, rel in (("basic", TO.BASIC), ("advanced", TO.ADVANCED)):
        for key, value, deps in res[name]:
            keys.append(dict(option=key, file=rel, default_text=value.strip()))
            for d in deps:
                if d != "D":
                    reads.append(dict(option=d, file=rel, function=f"<default of {key}>", line=0, form="ini_default",
                                      uses=[dict(kind="arith", detail=f"default expression of {key}: {value.strip()[:80]}")],
                                      text=value.strip()[:160]))
    return keys, reads


def census(repo: Path = None) -> dict:
    repo = Path(repo) if repo else REPO
    c = Census(repo)
    c.load()
    c.propagate()
    keys, ireads = ini_reads(repo)
    names = [k["option"] for k in keys]
    if len(set(names)) != len(names):
        dup = sorted({n for n in names if names.count(n) > 1})
        raise Unclassified(f"option defined twice in the ini files: {dup}")
    reads = c.reads + ireads
    by_opt: dict[str, list] = {}
    for r in reads:
        by_opt.setdefault(r["option"], []).append(r)
    unknown = sorted(k for k in by_opt if k not in names)       # read, but defined in no ini file (options.get -> None)
    for k in unknown:
        if any(r["form"] not in ("get", "get_default", "membership") for r in by_opt[k]):
            raise Unclassified(f"option {k!r} is read with [...] but no ini file defines it (KeyError at run time)")
    live = sorted(k for k in names if k in by_opt)
    dead = sorted(k for k in names if k not in by_opt)
    written = sorted({w["option"] for w in c.writes})
    kinds = {k: sorted({u["kind"] for r in by_opt[k] for u in r["uses"]}) for k in by_opt}
    return dict(files=c.files, sha=c.sha.hexdigest()[:16], defined=names, defaults={k["option"]: k["default_text"] for k in keys},
                live=live, dead=dead, read_but_undefined=unknown, written_by_code=written, kinds=kinds,
                reads=reads, writes=c.writes,
                tainted=dict(attrs=sorted(map(list, c.tainted_attrs)),
                             params=sorted([f.rel, f.qual, sorted(f.tainted_locals)] for f in c.funcs if f.tainted_locals)))


def sites(cen: dict) -> set:
    """the (option, file, function) triples of the census (what the dynamic validation compares with)"""
    return {(r["option"], r["file"], r["function"]) for r in cen["reads"] if r["form"] != "ini_default"}


def emit(repo: Path = None):
    repo = Path(repo) if repo else REPO
    try:
        cen = census(repo)
    except Exception:
        if OUT.exists():          # fail closed: never leave a stale census for the harness to use
            OUT.unlink()
        raise
    OUT.parent.mkdir(parents=True, exist_ok=True)
    OUT.write_text(json.dumps(cen, indent=1, sort_keys=True))
    return dict(files=len(cen["files"]), sha=cen["sha"], defined=len(cen["defined"]), live=len(cen["live"]), dead=len(cen["dead"]),
                reads=len(cen["reads"]), writes=len(cen["writes"]), read_but_undefined=cen["read_but_undefined"])


def load_emitted() -> dict:
    if not OUT.exists():
        raise Unclassified("no census: translate/option_reads.emit() failed or did not run")
    return json.loads(OUT.read_text())


if __name__ == "__main__":
    import sys
    sys.path.insert(0, str(VERIF))
    info = emit()
    print(info)
    cen = load_emitted()
    for k in cen["live"]:
        print(f"{k:32s} {cen['defaults'][k][:28]:30s} {','.join(cen['kinds'][k])}")
    print("DEAD:", " ".join(cen["dead"]))
