"""Fail-closed translator:  pybads/function_logger/function_logger.py (class FunctionLogger)  ->  coq/gen/Src_logger.v

Re-reads the file from VERIF_REPO (default /repo) on every ./check C12 | C10 run.  What it emits (meaning: coq/Model/LoggerSrc.v):

  src_record : rprog      `_record` executed SYMBOLICALLY (with `_expand_arrays()` inlined at its call).  Parameters are identified by
                          POSITION in the signature (x_orig, x, fval_orig, fsd, fun_eval_time, record_duplicate_data), locals through an
                          environment (a renamed local changes nothing).  Every `if` forks the path (`if c: A else: B; rest` is read as
                          `RIf c (A; rest) (B; rest)`, a negated test swaps the arms); a leaf is `return` / `raise` with the FINAL value of every
                          tracked place on that path as an expression over the state BEFORE the call:
                            RRet v i | RUpd i Y' S' n' v | RNew at X_orig X Y_orig Y S n Xn' cap' X_max_idx' v i | RRaise cls.
                          Accepted statements (ANYTHING else raises Untranslatable):
                            docstring;  name = <mask | index | table read | float expr>;
                            if [not] record_duplicate_data | fsd is [not] None | np.any(M) | np.sum(M) > k:  ... [else: ...]
                            if <int comparison of self.Xn / <table>.shape[0]>: self._expand_arrays()          (no fork: capacity becomes a ZIfGt)
                            if not np.isnan(fun_eval_time): <timer stores only>
                            self.T[i] = e | self.T[i] += e     T in Y, S, n_evals (existing row i, or the new row), X_orig, X, Y_orig (new row)
                            self.Xn += k | self.X_max_idx = <int expr>
                            stores to fun_eval_time / total_fun_eval_time / X_flag / Y_max (timers, display: not modelled, skipped)
                            return (v, i) | raise <Builtin>Error(...)  (no tracked store may precede a raise on its path)
                          masks      M ::= self.X == x | self.X[: e] == x   (element-wise)  |  M.all(axis=1) | np.all(M, axis=1)  (rows equal to x)
                                     any other comparison of the table with the point (np.isclose, !=, <=, x == self.X_orig ...) raises
                          indices    np.argwhere(M)[0, 0] | np.argwhere(M)[0][0] (first)  |  np.argwhere(M)[-1].item() | [-1, 0] (last)
                          floats     + - * / ** 2  np.sqrt  self.Y[i]  self.S[i]  [.item()]  fval_orig  fsd  literals     (sqrt stays symbolic)
                          ints       self.Xn  self.X_max_idx  <table>.shape[0]  literals  + -  min max np.minimum np.maximum np.max((a, b))
                                     int(.)  np.ceil(e / 2)
  src_expand_amount, src_expand_fills, src_init_fills, src_init_counters, src_finalize_cut
                          `_expand_arrays` (default amount; every table appended `[resize_amount, .]` rows of its fill value along axis 0),
                          `__init__` (tables allocated `[cache_size, .]` with their fill value, counters), `finalize` (every table `[: self.Xn + 1]`).
  src_call_events, src_add_events
                          `__call__` / `add` in statement order (EvPoint, EvTarget, EvCheck, EvUnpack, EvCoerce, EvDefault, EvRecord, EvCountF/C,
                          EvReturn); a validity test is  [if <flag> and] (d1 or d2 or ...) [wrapped in np.any]: raise ValueError(<message>)  with
                          d ::= not np.isscalar(v) | not np.isfinite(v) | np.iscomplexobj(v) | v is None | v <= 0.0 |
                                not (type(v) is tuple and len(v) == 2)   (the else-arm of the unpacking test).
  WRITER CENSUS           every store (assignment, augmented assignment, subscript store, del, mutating call, out=) to
                          self.X, X_orig, Y, Y_orig, S, n_evals, Xn, X_max_idx, func_count, cache_count anywhere in the class must be in the method
                          that is translated for it; no decorators / properties / setattr / __dict__; no other method mentions a tracked attribute;
                          no other module of the package stores into `<...>function_logger.<tracked>`.

TRUSTED READINGS (validated on every run: the generated programs are evaluated by Coq on the tie's sequences next to the hand-written model):
  * rows beyond Xn hold the NaN fill (src_init_fills / src_expand_fills are proved to be NaN for X) and match no point, so `self.X == x` over the
    whole table is read as "the filled rows"; * a float literal is the decimal it spells; * all tables have the same number of rows (`.shape[0]`
    of any of them is the capacity: __init__, _expand_arrays, finalize are checked to treat them alike; n_evals is not cut by finalize - harmless).

translate/logger_reference.json holds the text of the last translation the proofs were written against; it is NEVER used to decide anything, only
to say WHICH definition differs so that the search can be aimed (python -m translate.logger --write-reference).
"""
from __future__ import annotations

import ast
import json
import sys
from fractions import Fraction
from pathlib import Path

from vlib import core

REL = "pybads/function_logger/function_logger.py"
OUT = core.GEN / "Src_logger.v"
REFERENCE = Path(__file__).resolve().parent / "logger_reference.json"
MARK = "Definition src_record"
TABLES = ["X_orig", "Y_orig", "X", "Y", "S", "n_evals"]
COUNTERS = ["Xn", "X_max_idx", "func_count", "cache_count"]
TRACKED = set(TABLES + COUNTERS)
IGN_ATTRS = {"fun_eval_time", "total_fun_eval_time", "X_flag", "Y_max", "y_max"}
MUTATORS = {"fill", "sort", "resize", "put", "itemset", "partition", "setfield", "byteswap", "setflags", "clip", "round", "squeeze_", "__setitem__"}
NP_MUT = {"put", "copyto", "place", "putmask", "put_along_axis", "fill_diagonal"}
FORBIDDEN_NAMES = {"setattr", "getattr", "vars", "exec", "eval", "globals", "locals", "delattr"}


class Untranslatable(Exception):
    def __init__(self, msg, node=None, region=None):
        self.lineno = getattr(node, "lineno", None)
        self.region = region
        frag = ""
        if isinstance(node, ast.AST):
            try:
                frag = " :: " + " ".join(ast.unparse(node).split())[:160]
            except Exception:
                frag = ""
        super().__init__(f"{REL}:{self.lineno or '?'}: [{region or '?'}] {msg}{frag}")


REGION = ["?"]


def bad(msg, node=None, region=None):
    raise Untranslatable(msg, node, region or REGION[0])


def U(n):
    return " ".join(ast.unparse(n).split())


def dotted(n):
    if isinstance(n, ast.Name):
        return n.id
    if isinstance(n, ast.Attribute):
        b = dotted(n.value)
        return None if b is None else b + "." + n.attr
    return None


def self_attr(n):
    """'T' if n is self.T"""
    if isinstance(n, ast.Attribute) and isinstance(n.value, ast.Name) and n.value.id == "self":
        return n.attr
    return None


def store_base(t):
    """the self attribute a store target finally writes into (through subscripts), else None"""
    while isinstance(t, (ast.Subscript, ast.Starred)):
        t = t.value
    return self_attr(t)


def flat_targets(t):
    if isinstance(t, (ast.Tuple, ast.List)):
        for e in t.elts:
            yield from flat_targets(e)
    elif isinstance(t, ast.Starred):
        yield from flat_targets(t.value)
    else:
        yield t


def is_const(n, v=None):
    if isinstance(n, ast.UnaryOp) and isinstance(n.op, ast.USub) and isinstance(n.operand, ast.Constant):
        val = -n.operand.value
    elif isinstance(n, ast.Constant):
        val = n.value
    else:
        return False
    return True if v is None else (val == v and type(val) is type(v))


def const_val(n):
    if isinstance(n, ast.UnaryOp) and isinstance(n.op, ast.USub) and isinstance(n.operand, ast.Constant):
        return -n.operand.value
    if isinstance(n, ast.Constant):
        return n.value
    bad("literal expected", n)


# ----------------------------------------------------------------------------- census

def stores_of(fn):
    """{tracked attr} stored anywhere in the function (any kind of store)"""
    out = set()
    for n in ast.walk(fn):
        tg = []
        if isinstance(n, ast.Assign):
            for t in n.targets:
                tg += list(flat_targets(t))
        elif isinstance(n, (ast.AugAssign, ast.AnnAssign)):
            tg += list(flat_targets(n.target))
        elif isinstance(n, ast.Delete):
            for t in n.targets:
                tg += list(flat_targets(t))
        elif isinstance(n, (ast.For, ast.AsyncFor)):
            tg += list(flat_targets(n.target))
        elif isinstance(n, ast.NamedExpr):
            tg.append(n.target)
        elif isinstance(n, ast.withitem) and n.optional_vars is not None:
            tg += list(flat_targets(n.optional_vars))
        for t in tg:
            b = store_base(t)
            if b in TRACKED:
                out.add(b)
    return out


def census(cls, tree_all):
    REGION[0] = "census"
    for n in ast.walk(cls):
        if isinstance(n, ast.Name) and n.id in FORBIDDEN_NAMES:
            bad(f"`{n.id}` inside class FunctionLogger", n)
        if isinstance(n, ast.Attribute) and n.attr in ("__dict__", "__setattr__", "__getattribute__", "__slots__"):
            bad(f"`{n.attr}` inside class FunctionLogger", n)
        if isinstance(n, ast.Call):
            f = n.func
            if isinstance(f, ast.Attribute) and f.attr in MUTATORS and store_base(f.value) in TRACKED:
                bad("in-place method on a tracked table", n)
            if isinstance(f, ast.Attribute) and dotted(f.value) in ("np", "numpy") and f.attr in NP_MUT:
                bad("numpy in-place writer", n)
            for k in n.keywords:
                if k.arg in ("out", "where") and k.arg == "out":
                    bad("out= argument", n)
    methods = {}
    for st in cls.body:
        if isinstance(st, ast.Expr) and isinstance(st.value, ast.Constant):
            continue
        if isinstance(st, (ast.FunctionDef,)):
            if st.decorator_list:
                bad("decorated method (property / classmethod ...)", st)
            if st.name in TRACKED:
                bad("a method named like a tracked attribute", st)
            if st.name in methods:
                bad("method defined twice", st)
            methods[st.name] = st
        elif isinstance(st, (ast.Assign, ast.AnnAssign)):
            names = [dotted(t) for t in (st.targets if isinstance(st, ast.Assign) else [st.target])]
            if any(nm in TRACKED for nm in names):
                bad("class-level definition of a tracked attribute", st)
        else:
            bad("statement in the class body outside the whitelist", st)
    expect = {
        "__init__": set(TABLES + COUNTERS),
        "__call__": {"func_count"},
        "add": {"cache_count"},
        "finalize": {"X_orig", "Y_orig", "X", "Y", "S"},
        "_expand_arrays": set(TABLES),
        "_record": {"X_orig", "Y_orig", "X", "Y", "S", "n_evals", "Xn", "X_max_idx"},
    }
    for name, fn in methods.items():
        w = stores_of(fn)
        if name in expect:
            if w != expect[name]:
                extra, missing = sorted(w - expect[name]), sorted(expect[name] - w)
                bad(f"writer census: {name} stores {extra or ''} unexpectedly / no longer stores {missing or ''}", fn)
        else:
            for n in ast.walk(fn):
                a = self_attr(n)
                if a in TRACKED:
                    bad(f"method {name} (not translated) mentions self.{a}", n)
    for need in expect:
        if need not in methods:
            bad(f"method {need} not found", cls)
    # the rest of the package: no store through <...>.function_logger.<tracked>
    for rel, tr in tree_all.items():
        for n in ast.walk(tr):
            tg = []
            if isinstance(n, ast.Assign):
                for t in n.targets:
                    tg += list(flat_targets(t))
            elif isinstance(n, (ast.AugAssign, ast.AnnAssign)):
                tg += list(flat_targets(n.target))
            for t in tg:
                while isinstance(t, ast.Subscript):
                    t = t.value
                d = dotted(t) or ""
                parts = d.split(".")
                if len(parts) >= 2 and parts[-1] in TRACKED and any("logger" in p for p in parts[:-1]):
                    raise Untranslatable(f"{rel}:{n.lineno}: store into the log from outside FunctionLogger: {U(n)[:120]}", None, "census")
    return methods


# ----------------------------------------------------------------------------- trees -> Coq text

def coq(t):
    if t is None:
        return "None"
    if isinstance(t, bool):
        return "true" if t else "false"
    if isinstance(t, int):
        return f"({t})" if t < 0 else str(t)
    if isinstance(t, Fraction):
        return f"({t.numerator} # {t.denominator})" if t >= 0 else f"(({t.numerator}) # {t.denominator})"
    if isinstance(t, str):
        return '"' + t.replace('"', "'") + '"'
    if isinstance(t, list):
        return "[" + "; ".join(coq(x) for x in t) + "]"
    if isinstance(t, tuple):
        if t[0] == "nat":
            return f"{t[1]}%nat"
        if t[0] == "pair":
            return "(" + ", ".join(coq(x) for x in t[1:]) + ")"
        if len(t) == 1:
            return t[0]
        return "(" + t[0] + " " + " ".join(coq(x) for x in t[1:]) + ")"
    raise TypeError(t)


def Some(x):
    return ("Some", x)


def frac_of(v, node=None):
    if isinstance(v, bool) or not isinstance(v, (int, float)):
        bad("numeric literal expected", node)
    if isinstance(v, float) and (v != v or v in (float("inf"), float("-inf"))):
        bad("non-finite literal", node)
    return Fraction(repr(v)) if isinstance(v, float) else Fraction(v)


# ----------------------------------------------------------------------------- _record: symbolic execution

class St:
    def __init__(self, P, expand):
        self.P = P                    # role -> parameter name
        self.expand = expand          # (amount tree over ZXn at the call, fills)
        self.loc = {}                 # local name -> (kind, tree)
        self.xn, self.cap, self.xmax = ("ZXn",), ("ZCap",), ("ZXmax",)
        self.row = None               # index expression of the existing row written / read on this path
        self.roww = {}                # 'Y' | 'S' | 'n' -> tree
        self.new_at = None
        self.neww = {}                # table -> tree
        self.facts = {}               # coq(cond) -> bool
        self.dirty = False            # a tracked store happened
        self.xn_changed = False

    def fork(self):
        s = St(self.P, self.expand)
        s.loc, s.roww, s.neww, s.facts = dict(self.loc), dict(self.roww), dict(self.neww), dict(self.facts)
        s.xn, s.cap, s.xmax, s.row, s.new_at, s.dirty, s.xn_changed = self.xn, self.cap, self.xmax, self.row, self.new_at, self.dirty, self.xn_changed
        return s


def name_role(st, n):
    if isinstance(n, ast.Name):
        for role, nm in st.P.items():
            if nm == n.id and n.id not in st.loc:
                return role
    return None


def tr_z(n, st):
    if isinstance(n, ast.Name) and n.id in st.loc and st.loc[n.id][0] == "z":
        return st.loc[n.id][1]
    a = self_attr(n)
    if a == "Xn":
        return st.xn
    if a == "X_max_idx":
        return st.xmax
    if isinstance(n, ast.Subscript) and isinstance(n.value, ast.Attribute) and n.value.attr == "shape" and is_const(n.slice, 0):
        t = self_attr(n.value.value)
        if t in TABLES:
            return st.cap
        bad("shape of something that is not a tracked table", n)
    if is_const(n) and isinstance(const_val(n), int) and not isinstance(const_val(n), bool):
        return ("ZC", const_val(n))
    if isinstance(n, ast.BinOp) and isinstance(n.op, (ast.Add, ast.Sub)):
        return ("ZAdd" if isinstance(n.op, ast.Add) else "ZSub", tr_z(n.left, st), tr_z(n.right, st))
    if isinstance(n, ast.Call):
        f = dotted(n.func)
        if f == "int" and len(n.args) == 1 and not n.keywords:
            return tr_z(n.args[0], st)
        if f in ("np.minimum", "min", "np.maximum", "max") and len(n.args) == 2 and not n.keywords:
            return ("ZMin" if f in ("np.minimum", "min") else "ZMax", tr_z(n.args[0], st), tr_z(n.args[1], st))
        if f in ("np.max", "np.amax", "np.min", "np.amin") and len(n.args) == 1 and not n.keywords and isinstance(n.args[0], (ast.Tuple, ast.List)) and len(n.args[0].elts) == 2:
            return ("ZMax" if "max" in f else "ZMin", tr_z(n.args[0].elts[0], st), tr_z(n.args[0].elts[1], st))
        if f == "np.ceil" and len(n.args) == 1 and not n.keywords:
            e = n.args[0]
            if isinstance(e, ast.BinOp) and isinstance(e.op, ast.Div) and is_const(e.right) and const_val(e.right) == 2:
                return ("ZCeilHalf", tr_z(e.left, st))
    bad("integer expression outside the grammar", n)


def tr_zcmp(n, st):
    """a comparison of two integer expressions -> (a, b) meaning a > b"""
    if isinstance(n, ast.Compare) and len(n.ops) == 1:
        a, b = tr_z(n.left, st), tr_z(n.comparators[0], st)
        op = n.ops[0]
        if isinstance(op, ast.Gt):
            return a, b
        if isinstance(op, ast.Lt):
            return b, a
        if isinstance(op, ast.GtE):
            return a, ("ZSub", b, ("ZC", 1))
        if isinstance(op, ast.LtE):
            return b, ("ZSub", a, ("ZC", 1))
    bad("integer comparison outside the grammar", n)


def tr_range(n, st):
    """self.X | self.X[: e]"""
    if self_attr(n) == "X":
        return ("RAll",)
    if isinstance(n, ast.Subscript) and self_attr(n.value) == "X" and isinstance(n.slice, ast.Slice) and n.slice.lower is None and n.slice.step is None and n.slice.upper is not None:
        return ("RUpto", tr_z(n.slice.upper, st))
    bad("the duplicate search must compare the table self.X (or self.X[: e]) with the point x", n)


def axis1(call):
    if len(call.keywords) == 1 and call.keywords[0].arg == "axis" and is_const(call.keywords[0].value, 1):
        return True
    return False


def tr_mask(n, st):
    if isinstance(n, ast.Name) and n.id in st.loc and st.loc[n.id][0] == "mask":
        return st.loc[n.id][1]
    if isinstance(n, ast.Compare) and len(n.ops) == 1 and isinstance(n.ops[0], ast.Eq):
        l, r = n.left, n.comparators[0]
        if name_role(st, r) == "x":
            return ("MElems", tr_range(l, st))
        if name_role(st, l) == "x":
            return ("MElems", tr_range(r, st))
        bad("equality that is not table == x", n)
    if isinstance(n, ast.Call):
        f = n.func
        if isinstance(f, ast.Attribute) and f.attr == "all" and not n.args and axis1(n):
            m = tr_mask(f.value, st)
            if m[0] != "MElems":
                bad(".all(axis=1) of a row mask", n)
            return ("MRows", m[1])
        if dotted(f) == "np.all" and len(n.args) == 1 and axis1(n):
            m = tr_mask(n.args[0], st)
            if m[0] != "MElems":
                bad("np.all(., axis=1) of a row mask", n)
            return ("MRows", m[1])
    bad("not a duplicate mask (only `self.X == x`, `.all(axis=1)`, `np.all(., axis=1)` are read; np.isclose and other comparisons are not)", n)


def tr_ix(n, st):
    """index of an existing row"""
    if isinstance(n, ast.Name) and n.id in st.loc and st.loc[n.id][0] == "ix":
        return st.loc[n.id][1]
    if isinstance(n, ast.Call) and isinstance(n.func, ast.Attribute) and n.func.attr == "item" and not n.args and not n.keywords:
        n = n.func.value
        was_item = True
    else:
        was_item = False

    def argwhere(c):
        if isinstance(c, ast.Call) and dotted(c.func) == "np.argwhere" and len(c.args) == 1 and not c.keywords:
            return tr_mask(c.args[0], st)
        return None
    if isinstance(n, ast.Subscript):
        sl = n.slice
        m = argwhere(n.value)
        if m is not None:
            if isinstance(sl, ast.Tuple) and len(sl.elts) == 2 and is_const(sl.elts[1], 0) and not was_item:
                if is_const(sl.elts[0], 0):
                    return ("IFirst", m)
                if is_const(sl.elts[0], -1):
                    return ("ILast", m)
            if was_item and is_const(sl, -1) and m[0] == "MRows":
                return ("ILast", m)
            if was_item and is_const(sl, 0) and m[0] == "MRows":
                return ("IFirst", m)
        if isinstance(n.value, ast.Subscript) and is_const(sl, 0) and not was_item:
            m = argwhere(n.value.value)
            if m is not None and is_const(n.value.slice, 0):
                return ("IFirst", m)
            if m is not None and is_const(n.value.slice, -1):
                return ("ILast", m)
    bad("row index outside the grammar (np.argwhere(M)[0, 0] | np.argwhere(M)[-1].item())", n)


def which_row(n, st):
    """a subscript index -> ('row', ix) for an existing row or ('new', zexpr)"""
    if isinstance(n, ast.Name) and n.id in st.loc and st.loc[n.id][0] == "ix":
        return ("row", st.loc[n.id][1])
    if self_attr(n) == "Xn" or (isinstance(n, ast.Name) and n.id in st.loc and st.loc[n.id][0] == "z"):
        return ("new", tr_z(n, st))
    try:
        return ("row", tr_ix(n, st))
    except Untranslatable:
        return ("new", tr_z(n, st))


def use_row(st, ix, node):
    if st.row is None:
        st.row = ix
    elif st.row != ix:
        bad("two different existing rows addressed on one path", node)


def tr_n(n, st):
    """expression over n_evals"""
    if isinstance(n, ast.Name) and n.id in st.loc and st.loc[n.id][0] == "n":
        return st.loc[n.id][1]
    if is_const(n) and isinstance(const_val(n), int):
        return ("NC", const_val(n))
    if isinstance(n, ast.Subscript) and self_attr(n.value) == "n_evals":
        k, ix = which_row(n.slice, st)
        if k == "row":
            use_row(st, ix, n)
            return st.roww.get("n", ("NOld",))
        if "n_evals" in st.neww:
            return st.neww["n_evals"]
        if st.new_at is not None and ix != st.new_at:
            bad("read of n_evals at another row than the new one", n)
        f = st.expand[1].get("n_evals")
        if f != "FillZero":
            bad("n_evals of an unused row is read but its fill value is not zero", n)
        return ("NC", 0)
    if isinstance(n, ast.BinOp) and isinstance(n.op, ast.Add):
        return ("NAdd", tr_n(n.left, st), tr_n(n.right, st))
    if isinstance(n, ast.Call) and dotted(n.func) in ("np.maximum", "max") and len(n.args) == 2 and not n.keywords:
        return ("NMax", tr_n(n.args[0], st), tr_n(n.args[1], st))
    bad("n_evals expression outside the grammar", n)


def tr_f(n, st):
    if isinstance(n, ast.Name):
        if n.id in st.loc:
            k, t = st.loc[n.id]
            if k == "f":
                return t
            bad(f"local `{n.id}` is not a float expression here", n)
        r = name_role(st, n)
        if r == "fval_orig":
            return ("FVal",)
        if r == "fsd":
            if st.facts.get("CFsd") is not True:
                bad("fsd used as a number on a path where it may be None", n)
            return ("FSd",)
        bad("unknown name in a float expression", n)
    if is_const(n):
        return ("FC", frac_of(const_val(n), n))
    if isinstance(n, ast.Call) and isinstance(n.func, ast.Attribute) and n.func.attr == "item" and not n.args and not n.keywords:
        return tr_f(n.func.value, st)
    if isinstance(n, ast.Subscript) and self_attr(n.value) in ("Y", "S"):
        k, ix = which_row(n.slice, st)
        if k != "row":
            t = self_attr(n.value)
            if t in st.neww:
                return st.neww[t]
            bad("read of an unused row", n)
        use_row(st, ix, n)
        t = self_attr(n.value)
        return st.roww.get(t, ("FY",) if t == "Y" else ("FS",))
    if isinstance(n, ast.BinOp):
        if isinstance(n.op, ast.Pow):
            if is_const(n.right) and const_val(n.right) == 2:
                return ("FSq", tr_f(n.left, st))
            bad("power other than ** 2", n)
        ops = {ast.Add: "FAdd", ast.Sub: "FSub", ast.Mult: "FMul", ast.Div: "FDiv"}
        if type(n.op) in ops:
            return (ops[type(n.op)], tr_f(n.left, st), tr_f(n.right, st))
    if isinstance(n, ast.Call) and dotted(n.func) == "np.sqrt" and len(n.args) == 1 and not n.keywords:
        return ("FSqrt", tr_f(n.args[0], st))
    bad("float expression outside the grammar (+ - * / ** 2 np.sqrt, Y[i], S[i], fval_orig, fsd, literals)", n)


def tr_cond(n, st):
    """-> (cond tree, positive?)"""
    if isinstance(n, ast.UnaryOp) and isinstance(n.op, ast.Not):
        c, pos = tr_cond(n.operand, st)
        return c, not pos
    if name_role(st, n) == "record_duplicate_data":
        return ("CRecord",), True
    if isinstance(n, ast.Compare) and len(n.ops) == 1 and name_role(st, n.left) == "fsd" and is_const(n.comparators[0]) and const_val(n.comparators[0]) is None:
        if isinstance(n.ops[0], ast.IsNot):
            return ("CFsd",), True
        if isinstance(n.ops[0], ast.Is):
            return ("CFsd",), False
        bad("fsd compared with None by == / !=", n)
    if isinstance(n, ast.Call) and dotted(n.func) == "np.any" and len(n.args) == 1 and not n.keywords:
        return ("CAny", tr_mask(n.args[0], st)), True
    if isinstance(n, ast.Compare) and len(n.ops) == 1 and isinstance(n.ops[0], ast.Gt) and isinstance(n.left, ast.Call) and dotted(n.left.func) == "np.sum" \
            and len(n.left.args) == 1 and not n.left.keywords and is_const(n.comparators[0]) and isinstance(const_val(n.comparators[0]), int):
        return ("CCountGt", tr_mask(n.left.args[0], st), ("nat", const_val(n.comparators[0]))), True
    bad("condition outside the grammar (a flag or an index tested for truth, a tolerance, ...)", n)


def timer_only(stmts, st):
    """statements that store only into timer / display attributes and read no tracked place in a way that matters"""
    for s in stmts:
        if isinstance(s, ast.Assign) and len(s.targets) == 1 and store_base(s.targets[0]) in IGN_ATTRS:
            continue
        if isinstance(s, ast.AugAssign) and store_base(s.target) in IGN_ATTRS:
            continue
        return False
    return True


def inline_expand(st, call):
    if call.args or call.keywords:
        bad("_expand_arrays called with an explicit amount", call)
    amount = subst_xn(st.expand[0], st.xn)
    return ("ZAdd", st.cap, amount)


def subst_xn(t, xn):
    if t == ("ZXn",):
        return xn
    if isinstance(t, tuple):
        return tuple(subst_xn(x, xn) if isinstance(x, tuple) else x for x in t)
    return t


def exec_block(stmts, st):
    REGION[0] = "_record"
    if not stmts:
        bad("a path of _record ends without return")
    s, rest = stmts[0], stmts[1:]
    if isinstance(s, ast.Expr) and isinstance(s.value, ast.Constant) and isinstance(s.value.value, str):
        return exec_block(rest, st)
    if isinstance(s, ast.Pass):
        return exec_block(rest, st)
    if isinstance(s, ast.If):
        # (1) growth guard
        if len(s.body) == 1 and not s.orelse and isinstance(s.body[0], ast.Expr) and isinstance(s.body[0].value, ast.Call) \
                and dotted(s.body[0].value.func) == "self._expand_arrays":
            REGION[0] = "_record:growth"
            a, b = tr_zcmp(s.test, st)
            st.cap = ("ZIfGt", a, b, inline_expand(st, s.body[0].value), st.cap)
            st.dirty = True
            return exec_block(rest, st)
        # (2) timer block
        t = s.test
        if isinstance(t, ast.UnaryOp) and isinstance(t.op, ast.Not) and isinstance(t.operand, ast.Call) and dotted(t.operand.func) == "np.isnan" \
                and len(t.operand.args) == 1 and name_role(st, t.operand.args[0]) == "fun_eval_time":
            if not timer_only(s.body, st) or not timer_only(s.orelse, st):
                bad("the fun_eval_time block stores something else than timers", s)
            return exec_block(rest, st)
        c, pos = tr_cond(s.test, st)
        key = coq(c)
        body, orelse = (s.body, s.orelse) if pos else (s.orelse, s.body)
        if key in st.facts:
            return exec_block((body if st.facts[key] else orelse) + rest, st)
        s1, s2 = st.fork(), st.fork()
        s1.facts[key], s2.facts[key] = True, False
        return ("RIf", c, exec_block(body + rest, s1), exec_block(orelse + rest, s2))
    if isinstance(s, ast.Raise):
        if st.dirty:
            bad("a tracked store precedes a raise on the same path", s)
        e = s.exc
        if isinstance(e, ast.Call) and isinstance(e.func, ast.Name) and e.func.id in ("ValueError", "TypeError", "RuntimeError", "IndexError", "KeyError", "AssertionError"):
            return ("RRaise", e.func.id)
        bad("raise outside the grammar", s)
    if isinstance(s, ast.Return):
        return leaf(s, st)
    if isinstance(s, ast.Assign) and len(s.targets) == 1:
        t = s.targets[0]
        if isinstance(t, ast.Name):
            if t.id in st.P.values():
                bad("a parameter of _record is reassigned", s)
            st.loc[t.id] = bind_local(s.value, st)
            return exec_block(rest, st)
        base = store_base(t)
        if base in IGN_ATTRS:
            return exec_block(rest, st)
        if base == "X_max_idx" and self_attr(t) == "X_max_idx":
            REGION[0] = "_record:newrow"
            st.xmax = tr_z(s.value, st)
            st.dirty = True
            return exec_block(rest, st)
        if base in TABLES and isinstance(t, ast.Subscript) and self_attr(t.value) == base:
            do_store(base, t.slice, s.value, st, s, aug=False)
            return exec_block(rest, st)
        bad("assignment outside the whitelist", s)
    if isinstance(s, ast.AugAssign):
        t = s.target
        base = store_base(t)
        if base in IGN_ATTRS:
            return exec_block(rest, st)
        if self_attr(t) == "Xn" and isinstance(s.op, ast.Add):
            REGION[0] = "_record:newrow"
            st.xn = ("ZAdd", st.xn, tr_z(s.value, st))
            st.dirty = st.xn_changed = True
            return exec_block(rest, st)
        if base in ("n_evals", "Y", "S") and isinstance(t, ast.Subscript) and self_attr(t.value) == base and isinstance(s.op, ast.Add):
            do_store(base, t.slice, ast.BinOp(left=t, op=ast.Add(), right=s.value), st, s, aug=True)
            return exec_block(rest, st)
        bad("augmented assignment outside the whitelist", s)
    bad("statement outside the whitelist", s)


def bind_local(v, st):
    for kind, fn in (("mask", tr_mask), ("ix", tr_ix)):
        try:
            return (kind, fn(v, st))
        except Untranslatable:
            pass
    if isinstance(v, ast.Subscript) and self_attr(v.value) == "n_evals":
        return ("n", tr_n(v, st))
    if isinstance(v, ast.Subscript) and self_attr(v.value) in IGN_ATTRS:
        return ("timer", None)
    # a mask-like expression that is NOT in the grammar must not silently become something else
    for n in ast.walk(v):
        if self_attr(n) in ("X", "X_orig"):
            tr_mask(v, st)      # raises with the right message
    return ("f", tr_f(v, st))


def do_store(base, idx, value, st, node, aug):
    k, ix = which_row(idx, st)
    st.dirty = True
    if k == "row":
        REGION[0] = "_record:merge" if st.facts.get("CRecord") is True else "_record:not-recorded"
        if base not in ("Y", "S", "n_evals"):
            bad("store into an existing row of a table that is written only for new rows", node)
        use_row(st, ix, node)
        if base == "n_evals":
            st.roww["n"] = tr_n(value, st)
        else:
            st.roww[base] = tr_f(value, st)
        return
    REGION[0] = "_record:newrow"
    if st.new_at is None:
        st.new_at = ix
    elif st.new_at != ix:
        bad("stores of one new record go to different rows", node)
    if base in ("X_orig", "X"):
        v = value
        if isinstance(v, ast.Call) and isinstance(v.func, ast.Attribute) and v.func.attr == "copy" and not v.args:
            v = v.func.value
        elif isinstance(v, ast.Call) and dotted(v.func) in ("np.copy", "np.array", "np.asarray") and len(v.args) == 1 and not v.keywords:
            v = v.args[0]
        r = name_role(st, v)
        if r not in ("x", "x_orig"):
            bad("a coordinate table receives something else than x / x_orig", node)
        st.neww[base] = ("PX",) if r == "x" else ("PXorig",)
    elif base == "n_evals":
        st.neww[base] = tr_n(value, st)
    else:
        st.neww[base] = tr_f(value, st)


def leaf(s, st):
    v = s.value
    if not (isinstance(v, ast.Tuple) and len(v.elts) == 2):
        bad("_record must return a pair (value, index)", s)
    ev, ei = v.elts
    val = tr_f(ev, st)
    if st.neww or st.new_at is not None or st.xn_changed:
        REGION[0] = "_record:newrow"
        if st.roww:
            bad("a path writes an existing row and a new one", s)
        need = ["X_orig", "X", "Y_orig", "Y", "n_evals"]
        for t in need:
            if t not in st.neww:
                bad(f"the new-record path does not store {t}", s)
        ri = tr_z(ei, st)
        return ("RNew", st.new_at, st.neww["X_orig"], st.neww["X"], st.neww["Y_orig"], st.neww["Y"],
                Some(st.neww["S"]) if "S" in st.neww else None, st.neww["n_evals"], st.xn, st.cap, st.xmax, val, ri)
    if st.cap != ("ZCap",) or st.xmax != ("ZXmax",):
        bad("capacity / X_max_idx change on a path that adds no record", s)
    if st.roww:
        ix = tr_ix(ei, st)
        if ix != st.row:
            bad("the returned index is not the row that was written", s)
        return ("RUpd", st.row, Some(st.roww["Y"]) if "Y" in st.roww else None, Some(st.roww["S"]) if "S" in st.roww else None,
                Some(st.roww["n"]) if "n" in st.roww else None, val)
    if is_const(ei) and const_val(ei) is None:
        return ("RRet", val, None)
    return ("RRet", val, Some(tr_ix(ei, st)))


def check_no_local_stores(fn):
    """no store through a local alias: `name[...] = ...`, `name += ...` on a non-self name"""
    for n in ast.walk(fn):
        tg = []
        if isinstance(n, ast.Assign):
            for t in n.targets:
                tg += list(flat_targets(t))
        elif isinstance(n, ast.AugAssign):
            tg.append(n.target)
        for t in tg:
            if isinstance(t, ast.Subscript):
                b = t
                while isinstance(b, ast.Subscript):
                    b = b.value
                if self_attr(b) is None:
                    bad("store through a local (possible alias of a table)", n)
            if isinstance(n, ast.AugAssign) and isinstance(t, ast.Name):
                bad("augmented assignment of a local (possible alias of a table row)", n)
    for n in ast.walk(fn):
        if isinstance(n, (ast.For, ast.While, ast.Try, ast.With, ast.Lambda, ast.FunctionDef, ast.ListComp, ast.GeneratorExp, ast.NamedExpr, ast.Global, ast.Nonlocal)) and n is not fn:
            bad("construct outside the whitelist in a translated method", n)


def translate_record(fn, expand):
    REGION[0] = "_record"
    args = fn.args
    if args.vararg or args.kwarg or args.kwonlyargs or args.posonlyargs:
        bad("signature of _record", fn)
    names = [a.arg for a in args.args]
    roles = ["self", "x_orig", "x", "fval_orig", "fsd", "fun_eval_time", "record_duplicate_data"]
    if len(names) != len(roles) or names[0] != "self":
        bad("signature of _record (positions: x_orig, x, fval_orig, fsd, fun_eval_time, record_duplicate_data)", fn)
    if len(args.defaults) != 1 or not is_const(args.defaults[0]) or const_val(args.defaults[0]) is not True:
        bad("default of record_duplicate_data must be the literal True", fn)
    check_no_local_stores(fn)
    P = dict(zip(roles[1:], names[1:]))
    return exec_block(list(fn.body), St(P, expand)), names[1:]


# ----------------------------------------------------------------------------- __init__ / _expand_arrays / finalize

def fill_of(call, first_dim, region):
    """np.full([first_dim, k], np.nan) | np.zeros([first_dim, k]) | np.full((first_dim,), False, dtype=bool)"""
    REGION[0] = region
    if not isinstance(call, ast.Call):
        bad("table value is not an allocation", call)
    f = dotted(call.func)
    if f not in ("np.full", "np.zeros") or not call.args or not isinstance(call.args[0], (ast.List, ast.Tuple)) or not call.args[0].elts:
        bad("allocation outside the whitelist (np.full([n, k], np.nan) | np.zeros([n, k]))", call)
    d0 = call.args[0].elts[0]
    if U(d0) not in first_dim:
        bad(f"first dimension of the allocation is not {first_dim}", call)
    if f == "np.zeros":
        if len(call.args) != 1 or call.keywords:
            bad("np.zeros with extra arguments", call)
        return "FillZero"
    if len(call.args) != 2:
        bad("np.full arity", call)
    v = call.args[1]
    if dotted(v) in ("np.nan", "np.NaN", "numpy.nan"):
        return "FillNaN"
    if is_const(v) and const_val(v) is False:
        return "FillFalse"
    bad("fill value outside {np.nan, zeros, False}", call)


def translate_init(fn):
    REGION[0] = "__init__"
    fills, counters, flags = {}, {}, {}

    def walk(stmts, guard):
        for s in stmts:
            if isinstance(s, ast.If):
                if U(s.test) == "self.noise_flag" and not s.orelse:
                    walk(s.body, "noise")
                    continue
                if stores_of(s):
                    bad("conditional store of a tracked attribute", s)
                continue
            tgt, val = None, None
            if isinstance(s, ast.Assign) and len(s.targets) == 1:
                tgt, val = s.targets[0], s.value
            elif isinstance(s, ast.AnnAssign) and s.value is not None:
                tgt, val = s.target, s.value
            elif isinstance(s, ast.Expr) and isinstance(s.value, ast.Constant):
                continue
            else:
                if stores_of(s):
                    bad("store of a tracked attribute by a statement outside the whitelist", s)
                continue
            a = self_attr(tgt)
            if a in TABLES:
                if a in fills:
                    bad("table allocated twice", s)
                if (a == "S") != (guard == "noise"):
                    bad("S must be allocated under `if self.noise_flag:` and only S", s)
                fills[a] = fill_of(val, ("cache_size",), "__init__")
                REGION[0] = "__init__"
            elif a in COUNTERS:
                if a in counters or guard or not is_const(val) or not isinstance(const_val(val), int):
                    bad("counter initialisation outside the whitelist", s)
                counters[a] = const_val(val)
            elif a in ("he_noise_flag", "noise_flag", "cache_size"):
                flags[a] = U(val)
            elif store_base(tgt) in TRACKED:
                bad("store into a tracked table in __init__", s)
    walk(fn.body, None)
    if flags.get("he_noise_flag") != "uncertainty_handling_level == 2" or flags.get("noise_flag") != "noise_flag" or flags.get("cache_size") != "cache_size":
        bad(f"flag definitions changed: {flags}", fn)
    if set(fills) != set(TABLES) or set(counters) != set(COUNTERS):
        bad("not every table / counter is initialised", fn)
    return fills, counters


def translate_expand(fn):
    REGION[0] = "_expand_arrays"
    a = fn.args
    if [x.arg for x in a.args] != ["self", "resize_amount"] or len(a.defaults) != 1 or not is_const(a.defaults[0]) or const_val(a.defaults[0]) is not None:
        bad("signature of _expand_arrays", fn)
    check_no_local_stores(fn)
    amount, fills = None, {}
    st = St({}, (None, {}))

    def walk(stmts, guard):
        nonlocal amount
        for s in stmts:
            if isinstance(s, ast.Expr) and isinstance(s.value, ast.Constant):
                continue
            if isinstance(s, ast.If):
                if U(s.test) == "resize_amount is None" and not s.orelse and len(s.body) == 1 and isinstance(s.body[0], ast.Assign) \
                        and U(s.body[0].targets[0]) == "resize_amount" and amount is None and not fills:
                    amount = tr_z(s.body[0].value, st)
                    continue
                if U(s.test) == "self.noise_flag" and not s.orelse:
                    walk(s.body, "noise")
                    continue
                bad("if outside the whitelist", s)
            if isinstance(s, ast.Assign) and len(s.targets) == 1 and self_attr(s.targets[0]) is not None:
                t = self_attr(s.targets[0])
                v = s.value
                if not (isinstance(v, ast.Call) and dotted(v.func) == "np.append" and len(v.args) == 2 and self_attr(v.args[0]) == t):
                    bad("a table must grow by `self.T = np.append(self.T, <fill>, axis=0)`", s)
                one_d = t == "X_flag"
                kws = {k.arg: k.value for k in v.keywords}
                if not one_d and not (set(kws) == {"axis"} and is_const(kws["axis"], 0)):
                    bad("np.append without axis=0", s)
                if t in IGN_ATTRS:
                    fill_of(ast.Call(func=v.args[1].func, args=v.args[1].args[:2], keywords=[]) if isinstance(v.args[1], ast.Call) else v.args[1], ("resize_amount",), "_expand_arrays")
                    continue
                if t not in TABLES or t in fills:
                    bad("unexpected / repeated table in _expand_arrays", s)
                if (t == "S") != (guard == "noise"):
                    bad("S must grow under `if self.noise_flag:` and only S", s)
                fills[t] = fill_of(v.args[1], ("resize_amount",), "_expand_arrays")
                continue
            bad("statement outside the whitelist", s)
    walk(fn.body, None)
    if amount is None or set(fills) != set(TABLES):
        bad("default amount / some table missing", fn)
    return amount, fills


def translate_finalize(fn):
    REGION[0] = "finalize"
    cut, seen = None, set()
    st = St({}, (None, {}))

    def walk(stmts):
        nonlocal cut
        for s in stmts:
            if isinstance(s, ast.Expr) and isinstance(s.value, ast.Constant):
                continue
            if isinstance(s, ast.If) and U(s.test) == "self.noise_flag" and not s.orelse:
                walk(s.body)
                continue
            if isinstance(s, ast.Assign) and len(s.targets) == 1 and self_attr(s.targets[0]):
                t = self_attr(s.targets[0])
                v = s.value
                if not (isinstance(v, ast.Subscript) and self_attr(v.value) == t and isinstance(v.slice, ast.Slice) and v.slice.lower is None
                        and v.slice.step is None and v.slice.upper is not None):
                    bad("finalize must cut a table by `self.T = self.T[: e]`", s)
                c = tr_z(v.slice.upper, st)
                if cut is None:
                    cut = c
                elif cut != c:
                    bad("tables are cut at different rows", s)
                if t in seen:
                    bad("table cut twice", s)
                seen.add(t)
                continue
            bad("statement outside the whitelist", s)
    walk(fn.body)
    if not {"X_orig", "Y_orig", "X", "Y", "S"} <= seen or not seen <= set(TABLES) | IGN_ATTRS:
        bad(f"finalize cuts {sorted(seen)}", fn)
    return cut


# ----------------------------------------------------------------------------- __call__ / add

PREAMBLE = [
    "if x.ndim > 1: x = x.squeeze()",
    "if x.ndim == 0: x = np.atleast_1d(x)",
    "assert x.size == x.shape[0]",
    "if self.transform_variables: x_orig = self.variable_transformer.inverse_transf(np.reshape(x, (1, x.shape[0])))[0] else: x_orig = x",
]
SUBJ = {"fun_res": "JRes", "fval_orig": "JVal", "fsd": "JSd"}


def message_tag(stmts, region):
    txt = ""
    for n in stmts:
        for c in ast.walk(n):
            if isinstance(c, ast.Constant) and isinstance(c.value, str):
                txt += c.value
    if "InvalidFuncValue" in txt:
        return "InvalidFuncValue"
    if "InvalidNoiseValue" in txt:
        return "InvalidNoiseValue"
    if "should return two outputs" in txt:
        return "NotPair"
    bad("message of a validity test not recognised", stmts[0] if stmts else None, region)


def raised_class(stmts):
    r = stmts[-1] if stmts else None
    if isinstance(r, ast.Raise) and isinstance(r.exc, ast.Call) and isinstance(r.exc.func, ast.Name):
        for s in stmts[:-1]:
            if not (isinstance(s, ast.Assign) and len(s.targets) == 1 and isinstance(s.targets[0], ast.Name) and s.targets[0].id in ("error_message", "wrong_format_target_function")):
                bad("body of a validity test does more than build the message and raise", s)
        return r.exc.func.id
    bad("a validity test must end in `raise <Class>(...)`", r)


def tr_vtest(n):
    neg = False
    if isinstance(n, ast.UnaryOp) and isinstance(n.op, ast.Not):
        neg, n = True, n.operand
    if isinstance(n, ast.Call) and len(n.args) == 1 and not n.keywords and isinstance(n.args[0], ast.Name) and n.args[0].id in SUBJ:
        j = (SUBJ[n.args[0].id],)
        f = dotted(n.func)
        if f == "np.isscalar" and neg:
            return ("TNotScalar", j)
        if f == "np.isfinite" and neg:
            return ("TNotFinite", j)
        if f == "np.iscomplexobj" and not neg:
            return ("TComplex", j)
    if isinstance(n, ast.Compare) and len(n.ops) == 1 and isinstance(n.left, ast.Name) and n.left.id in SUBJ and not neg:
        j = (SUBJ[n.left.id],)
        c = n.comparators[0]
        if isinstance(n.ops[0], ast.Is) and is_const(c) and const_val(c) is None:
            return ("TIsNone", j)
        if isinstance(n.ops[0], ast.LtE) and is_const(c) and const_val(c) == 0 and not isinstance(const_val(c), bool):
            return ("TLeZero", j)
    bad("disjunct of a validity test outside the grammar", n)


def tr_check(s, region):
    """if [flag and] (d1 or d2 ...) [np.any(...)]: raise"""
    REGION[0] = region
    if s.orelse:
        bad("validity test with an else", s)
    t = s.test
    guard = ("GAlways",)
    if isinstance(t, ast.BoolOp) and isinstance(t.op, ast.And) and len(t.values) == 2 and U(t.values[0]) in ("self.he_noise_flag", "self.noise_flag"):
        guard = ("GHe",) if U(t.values[0]) == "self.he_noise_flag" else ("GNoise",)
        t = t.values[1]
    if isinstance(t, ast.Call) and dotted(t.func) == "np.any" and len(t.args) == 1 and not t.keywords:
        t = t.args[0]
    ds = t.values if isinstance(t, ast.BoolOp) and isinstance(t.op, ast.Or) else [t]
    disj = [tr_vtest(d) for d in ds]
    return ("mkCheck", guard, raised_class(s.body), message_tag(s.body, region), disj)


def match_preamble(stmts, region):
    REGION[0] = region
    got = [U(s) for s in stmts[:4]]
    if got != PREAMBLE:
        for g, p, s in zip(got, PREAMBLE, stmts):
            if g != p:
                bad("the point preamble (flatten x, x_orig = inverse transform of x) differs from the pinned text", s)
        bad("the point preamble is incomplete", stmts[0] if stmts else None)
    return ("EvPoint", "flatten;inverse_transf")


def record_call(s, region, rec_default):
    REGION[0] = region
    if not (isinstance(s, ast.Assign) and len(s.targets) == 1 and U(s.targets[0]) in ("fval, idx", "(fval, idx)") and isinstance(s.value, ast.Call)
            and dotted(s.value.func) == "self._record"):
        return None
    c = s.value
    args = []
    for a in c.args:
        if not isinstance(a, ast.Name):
            bad("argument of _record is not a plain name", s)
        args.append("<time>" if a.id in ("funtime", "fun_eval_time") else a.id)
    kws = [f"{k.arg}={U(k.value)}" for k in c.keywords]
    if any(k.arg is None for k in c.keywords):
        bad("**kwargs in the call of _record", s)
    if not any(k.startswith("record_duplicate_data=") for k in kws) and len(args) < 6:
        kws.append(f"record_duplicate_data={rec_default}")
    return ("EvRecord", args + kws)


def is_timer_stmt(s):
    if isinstance(s, ast.Assign) and len(s.targets) == 1 and isinstance(s.targets[0], ast.Name) and s.targets[0].id in ("timer", "funtime"):
        return U(s.value) in ("Timer()", "timer.get_duration('funtime')")
    if isinstance(s, ast.Expr) and U(s.value) in ("timer.start_timer('funtime')", "timer.stop_timer('funtime')"):
        return True
    return False


def translate_call(fn, rec_default):
    region = "__call__"
    REGION[0] = region
    if [a.arg for a in fn.args.args] != ["self", "x", "record_duplicate_data"] or len(fn.args.defaults) != 1 or const_val(fn.args.defaults[0]) is not True:
        bad("signature of __call__", fn)
    body = [s for s in fn.body if not (isinstance(s, ast.Expr) and isinstance(s.value, ast.Constant)) and not is_timer_stmt(s)]
    evs = [match_preamble(body, region)]
    i = 4
    if not (i < len(body) and U(body[i]) == "wrong_format_target_function = False"):
        bad("expected `wrong_format_target_function = False`", body[i] if i < len(body) else fn)
    i += 1
    tr = body[i] if i < len(body) else None
    if not isinstance(tr, ast.Try) or tr.orelse or tr.finalbody or len(tr.handlers) != 1:
        bad("expected the try block around the target evaluation (one handler, no else / finally)", tr or fn)
    h = tr.handlers[0]
    if U(h.type) != "Exception" or not h.body or not (isinstance(h.body[-1], ast.Raise) and h.body[-1].exc is None and h.body[-1].cause is None):
        bad("the handler must catch Exception and end in a bare `raise`", h)
    for n in ast.walk(ast.Module(body=h.body[:-1], type_ignores=[])):
        if isinstance(n, (ast.Raise, ast.Return, ast.Try, ast.Call)) and not (isinstance(n, ast.Call) and dotted(n.func) == "str"):
            bad("the handler does more than extend err.args", n)
        if isinstance(n, (ast.Assign, ast.AugAssign)):
            tg = n.targets[0] if isinstance(n, ast.Assign) else n.target
            if U(tg) != f"{h.name}.args":
                bad("the handler stores something else than err.args", n)
    for s in tr.body:
        if is_timer_stmt(s):
            continue
        us = U(s)
        if isinstance(s, ast.Assign) and us.startswith("fun_res = self.fun("):
            c = s.value
            if len(c.args) != 1 or c.keywords or not isinstance(c.args[0], ast.Name):
                bad("target call", s)
            evs.append(("EvTarget", c.args[0].id))
        elif isinstance(s, ast.If) and U(s.test) == "self.he_noise_flag":
            if [U(x) for x in s.orelse] != ["fval_orig = fun_res", "fsd = None"]:
                bad("else-arm of the unpacking (fval_orig = fun_res; fsd = None)", s)
            if len(s.body) != 1 or not isinstance(s.body[0], ast.If):
                bad("the specified-noise arm must be the pair test", s)
            p = s.body[0]
            if U(p.test) != "type(fun_res) is tuple and len(fun_res) == 2" or [U(x) for x in p.body] != ["fval_orig, fsd = fun_res"]:
                bad("pair test / unpacking outside the pinned shape", p)
            cls = raised_class(p.orelse)
            evs.append(("EvCheck", ("mkCheck", ("GHe",), cls, message_tag(p.orelse, region), [("TNotPair", ("JRes",))])))
            evs.append(("EvUnpack", ("GHe",)))
        elif isinstance(s, ast.If) and us in ("if isinstance(fval_orig, np.ndarray): fval_orig = fval_orig.item()", "if isinstance(fsd, np.ndarray): fsd = fsd.item()"):
            evs.append(("EvCoerce", "item:" + s.body[0].targets[0].id))
        else:
            bad("statement inside the try outside the whitelist", s)
    i += 1
    while i < len(body):
        s = body[i]
        us = U(s)
        rc = record_call(s, region, rec_default)
        REGION[0] = region
        if us == "if not np.isscalar(fval_orig) and np.size(fval_orig) == 1: fval_orig = np.array(fval_orig).flat[0]":
            evs.append(("EvCoerce", "flat0:fval_orig"))
        elif rc is not None:
            evs.append(rc)
        elif isinstance(s, ast.If):
            evs.append(("EvCheck", tr_check(s, region + ":checks")))
        elif us == "self.func_count += 1":
            evs.append(("EvCountF",))
        elif isinstance(s, ast.Return):
            if not isinstance(s.value, ast.Tuple) or not all(isinstance(e, ast.Name) for e in s.value.elts) or i != len(body) - 1:
                bad("return outside the pinned shape", s)
            evs.append(("EvReturn", [e.id for e in s.value.elts]))
        else:
            bad("statement outside the whitelist", s)
        i += 1
    return evs


def translate_add(fn, rec_default):
    region = "add"
    REGION[0] = region
    if [a.arg for a in fn.args.args] != ["self", "x", "fval_orig", "fsd", "fun_eval_time"]:
        bad("signature of add", fn)
    d = fn.args.defaults
    if len(d) != 2 or const_val(d[0]) is not None or U(d[1]) != "np.nan":
        bad("defaults of add", fn)
    body = [s for s in fn.body if not (isinstance(s, ast.Expr) and isinstance(s.value, ast.Constant))]
    evs = [match_preamble(body, region)]
    for i, s in enumerate(body[4:]):
        us = U(s)
        rc = record_call(s, region, rec_default)
        REGION[0] = region
        if isinstance(s, ast.If) and U(s.test) == "self.noise_flag" and [U(x) for x in s.orelse] == ["fsd = None"] and len(s.body) == 1 \
                and isinstance(s.body[0], ast.If) and U(s.body[0].test) == "fsd is None" and not s.body[0].orelse and len(s.body[0].body) == 1 \
                and isinstance(s.body[0].body[0], ast.Assign) and U(s.body[0].body[0].targets[0]) == "fsd" and is_const(s.body[0].body[0].value):
            evs.append(("EvDefault", ("GNoise",), frac_of(const_val(s.body[0].body[0].value), s)))
        elif rc is not None:
            evs.append(rc)
        elif isinstance(s, ast.If):
            evs.append(("EvCheck", tr_check(s, region + ":checks")))
        elif us == "self.cache_count += 1":
            evs.append(("EvCountC",))
        elif isinstance(s, ast.Return):
            if not isinstance(s.value, ast.Tuple) or not all(isinstance(e, ast.Name) for e in s.value.elts) or s is not body[-1]:
                bad("return outside the pinned shape", s)
            evs.append(("EvReturn", [e.id for e in s.value.elts]))
        else:
            bad("statement outside the whitelist", s)
    return evs


# ----------------------------------------------------------------------------- driver

def load():
    root = core.REPO
    src = (root / REL).read_text()
    tree = ast.parse(src)
    cls = [n for n in tree.body if isinstance(n, ast.ClassDef) and n.name == "FunctionLogger"]
    if len(cls) != 1:
        raise Untranslatable("class FunctionLogger not found exactly once", None, "census")
    others = {}
    for p in sorted((root / "pybads").rglob("*.py")):
        rel = str(p.relative_to(root))
        if rel == REL or "/testing/" in rel or "__pycache__" in rel:
            continue
        try:
            import warnings
            with warnings.catch_warnings():
                warnings.simplefilter("ignore")
                others[rel] = ast.parse(p.read_text())
        except SyntaxError:
            continue
    M = census(cls[0], others)
    fills_init, counters = translate_init(M["__init__"])
    amount, fills_exp = translate_expand(M["_expand_arrays"])
    cut = translate_finalize(M["finalize"])
    prog, pnames = translate_record(M["_record"], (amount, fills_exp))
    rec_default = "True"
    call = translate_call(M["__call__"], rec_default)
    add = translate_add(M["add"], rec_default)
    if fills_init.get("X") != "FillNaN" or fills_exp.get("X") != "FillNaN":
        # the reading of `self.X == x` over the whole table as "the filled rows" needs unused rows that match no point
        pass     # emitted as is: C12_fills_are_source fails; the generated program is still evaluated by the tie
    return dict(record=prog, call=call, add=add, amount=amount, fills_init=fills_init, fills_exp=fills_exp, counters=counters, cut=cut)


def defs(t):
    """name -> (type, Coq text)"""
    order = TABLES
    return {
        "src_record": ("rprog", coq(t["record"])),
        "src_call_events": ("list cev_t", coq(t["call"])),
        "src_add_events": ("list cev_t", coq(t["add"])),
        "src_expand_amount": ("zexpr", coq(t["amount"])),
        "src_init_fills": ("list (string * fill)", coq([("pair", k, (t["fills_init"][k],)) for k in order])),
        "src_expand_fills": ("list (string * fill)", coq([("pair", k, (t["fills_exp"][k],)) for k in order])),
        "src_init_counters": ("list (string * Z)", coq([("pair", k, t["counters"][k]) for k in ["func_count", "cache_count", "Xn", "X_max_idx"]])),
        "src_finalize_cut": ("zexpr", coq(t["cut"])),
    }


def render(t):
    out = ["(* GENERATED by translate/logger.py from " + REL + " - do not edit; regenerated on every ./check C12 | C10 *)",
           "From Coq Require Import ZArith QArith List String Bool.",
           "From PV Require Import Model.XQ Model.Val Model.Logger Model.LoggerSrc.",
           "Import ListNotations.", "Open Scope string_scope.", "Open Scope Z_scope.", ""]
    for name, (ty, text) in defs(t).items():
        out.append(f"Definition {name} : {ty} :=\n  {text}.\n")
    return "\n".join(out)


def emit():
    try:
        t = load()
        text = render(t)
    except Exception as ex:
        core.write_if_changed(OUT, "(* translate/logger.py could not translate the current source, no definition emitted:\n   %s *)\n"
                              % str(ex).replace("*)", "* )").replace("(*", "( *"))
        raise
    changed = core.write_if_changed(OUT, text)
    return dict(out=str(OUT.relative_to(core.VERIF)), changed=changed, differs_from_reference=[d["name"] for d in diff(t)])


def generated_ok():
    return OUT.exists() and MARK in OUT.read_text()


def current():
    """(translation or None, exception or None) of the current source, without writing anything"""
    try:
        return load(), None
    except Untranslatable as ex:
        return None, ex


def reference():
    return json.loads(REFERENCE.read_text()) if REFERENCE.exists() else None


def diff(t, ref=None):
    ref = reference() if ref is None else ref
    if ref is None or t is None:
        return []
    out = []
    for name, (ty, text) in defs(t).items():
        if ref.get(name) != text:
            out.append(dict(name=name, cur=text, ref=ref.get(name)))
    return out


def regions_of_diff(t, ex):
    """which constructs of the logger the search should aim at: subset of
    {'dupsearch', 'merge', 'notrecorded', 'growth', 'newrow', 'checks', 'add', 'call', 'census'}"""
    out = set()
    if ex is not None:
        r = (getattr(ex, "region", None) or "") + " " + str(ex)
        for key, tags in (("dupsearch", ("duplicate", "mask", "np.any", "argwhere", "index", "condition outside")), ("merge", (":merge", "float expression", "sqrt")),
                          ("notrecorded", ("not-recorded", "record_duplicate_data")), ("growth", ("growth", "_expand_arrays", "fill", "__init__", "allocation", "finalize")),
                          ("newrow", ("newrow", "new record", "new-record")), ("checks", ("checks", "validity", "disjunct", "pair test", "unpacking")),
                          ("add", ("[add",)), ("call", ("[__call__", "handler", "try"))):
            if any(tg in r for tg in tags):
                out.add(key)
        if not out:
            out = {"dupsearch", "merge", "notrecorded", "growth", "newrow", "checks", "add"}
        return out
    for d in diff(t):
        n, cur, ref = d["name"], d["cur"], d["ref"] or ""
        if n == "src_record":
            import re
            def parts(s):
                return dict(masks=sorted(set(re.findall(r"\((?:CAny|CCountGt|IFirst|ILast) [^F]*?\)\)", s))), upd=re.findall(r"\(RUpd .*?\) \(RNew|\(RUpd .*$", s), new=re.findall(r"\(RNew .*?\)\)\)", s), shape=re.sub(r"\((F|N|Z)[A-Za-z]* [^;]*", "", s)[:0])
            a, b = parts(cur), parts(ref)
            if a["masks"] != b["masks"]:
                out.add("dupsearch")
            if "RUpd" in cur and a["upd"] != b["upd"]:
                out |= {"merge", "notrecorded"}
            if a["new"] != b["new"]:
                out |= {"newrow", "growth"}
            if not out & {"dupsearch", "merge", "newrow"}:
                out |= {"dupsearch", "merge", "notrecorded", "newrow", "growth"}
            else:
                out.add("notrecorded")
        elif n in ("src_call_events",):
            out |= {"checks", "call"}
        elif n == "src_add_events":
            out |= {"add", "checks"}
        else:
            out.add("growth")
    return out


if __name__ == "__main__":
    t = load()
    if "--write-reference" in sys.argv:
        REFERENCE.write_text(json.dumps({k: v[1] for k, v in defs(t).items()}, indent=1) + "\n")
        print("reference written:", REFERENCE)
    else:
        print(render(t))
