"""translate/rng_sites.py — static tie of the premises P1/P2 of the C07 noninterference model.

A fail-closed `ast` scan of every module under <repo>/pybads (without testing/, examples/) and of
every module of the installed gpyreg (without testing/, examples/).  Output: coq/gen/Src_rng_sites.v

    src_rng_sites : list site      one record (file, qualified function, source text, category,
                                   seed class, kind) per
        * call site of randomness: np.random.* / numpy.random.* / aliases (`rnd`) / names imported from
          numpy.random, generator constructors (default_rng, Generator, RandomState, SeedSequence,
          bit generators), scipy.stats.qmc engines (Sobol( ...) with the provenance of the seed, method
          draws on generator-like objects, calls passing rng=/random_state=/seed=, scipy's stochastic
          optimisers, .rvs(, stdlib `random`, os.urandom / secrets / uuid, time.time() & co (and every
          place a time-derived value reaches a seed, a draw or control flow), hash( / id(,
          iteration over a syntactic set, os.environ reads;
        * `global` statement, exec / eval / globals() / vars() / locals() / compile / __import__ use,
          functools caches; option defaults of the .ini files that read a module global;
        * module-level assignment of anything not evidently immutable, module-level side effects,
          class-level mutable attribute, mutable default argument;
        * logging configuration (process-global, affects output only).
    src_layout : layout            the ORDER facts the model's Construct/Optimize depend on.

Kinds: GlobalStream | SeededFromRunData | RebindEveryLoad | ReadOnlyConstant | LoggingOnly | Unclassified.
Every rule is conservative: a site gets an allowed kind only if a syntactic argument for it is found;
everything else is Unclassified, and `C07_premises_hold_in_source` (vm_compute over this table) fails.
Structural surprises (BADS class / methods / options.py loader not found, unparsable file) raise
Untranslatable => the translator obligation is broken (never a silent pass).

What the scan does NOT see (stated in the plug-in's EXPLANATION): anything below the Python level
(BLAS/LAPACK threading, SciPy/NumPy internals), dynamic attribute tricks (getattr with computed
names, monkey-patching from outside the scanned trees), set iteration that is not syntactically a
set, and value flow the rules below do not follow (time taint is function-local plus return values;
seed provenance is flow-insensitive over local names; attributes and containers are not tracked).
"""
from __future__ import annotations

import ast
import builtins
import importlib.util
import os
import re
from pathlib import Path

from vlib import core


class Untranslatable(Exception):
    pass


# --------------------------------------------------------------------------- vocabulary

LEGACY_DRAWS = set("""beta binomial bytes chisquare choice dirichlet exponential f gamma geometric gumbel
hypergeometric laplace logistic lognormal logseries multinomial multivariate_normal negative_binomial
noncentral_chisquare noncentral_f normal pareto permutation poisson power rand randint randn random
random_integers random_sample ranf rayleigh sample shuffle standard_cauchy standard_exponential
standard_gamma standard_normal standard_t triangular uniform vonmises wald weibull zipf get_state""".split())
GEN_CTORS = {"default_rng", "Generator", "RandomState", "SeedSequence", "PCG64", "PCG64DXSM", "MT19937",
             "Philox", "SFC64", "BitGenerator"}
GEN_METHODS = LEGACY_DRAWS | {"integers", "permuted", "random_base2", "rvs", "fast_forward", "spawn",
                              "integers", "random_raw"}
GEN_METHODS -= {"f", "power", "sample", "get_state"}     # too generic as method names; np.random.f is still caught
QMC_ENGINES = {"Sobol", "Halton", "LatinHypercube", "PoissonDisk", "MultinomialQMC", "MultivariateNormalQMC",
               "QMCEngine"}
QMC_PURE = {"scale", "discrepancy", "update_discrepancy", "geometric_discrepancy"}
SCIPY_STOCHASTIC = {"differential_evolution", "dual_annealing", "basinhopping", "shgo"}
PRINT_STATE_CALLS = {"numpy.array2string", "numpy.array_str", "numpy.array_repr", "numpy.format_float_positional",
                     "numpy.format_float_scientific"}
TIME_CALLS = {"time.time", "time.time_ns", "time.perf_counter", "time.perf_counter_ns", "time.monotonic",
              "time.monotonic_ns", "time.process_time", "time.process_time_ns", "time.clock",
              "datetime.datetime.now", "datetime.datetime.utcnow", "datetime.datetime.today",
              "datetime.date.today", "timeit.default_timer"}
ENTROPY_PREFIX = ("secrets.", "random.")
ENTROPY_CALLS = {"os.urandom", "os.getrandom", "uuid.uuid1", "uuid.uuid4", "os.getpid", "os.times",
                 "threading.get_ident", "threading.get_native_id"}
DYN_SCOPE = {"exec", "eval", "globals", "vars", "locals", "compile", "__import__"}
RNG_KW = {"rng", "random_state", "seed"}
RNG_RECV = re.compile(r"(rng|rnd|random|generator|sampler|engine|rstate|random_state|bitgen|^rs$)", re.I)
MUTATORS = {"append", "extend", "insert", "pop", "remove", "clear", "sort", "reverse", "update", "add",
            "discard", "setdefault", "popitem", "fill", "resize", "put", "itemset", "__setitem__",
            "__delitem__", "difference_update", "intersection_update", "symmetric_difference_update",
            "appendleft", "extendleft", "popleft", "rotate", "move_to_end"}
READ_METHODS = {"get", "keys", "values", "items", "copy", "index", "count", "__contains__", "__getitem__"}
PURE_FUNCS = {"len", "isinstance", "sorted", "tuple", "list", "set", "frozenset", "dict", "enumerate", "zip",
              "print", "str", "repr", "any", "all", "min", "max", "sum", "iter", "range", "type"}
MUTABLE_CTORS = {"list", "dict", "set", "bytearray", "defaultdict", "OrderedDict", "deque", "Counter",
                 "array", "zeros", "ones", "empty", "full", "arange", "linspace", "eye", "asarray"}
ORDER_FREE_REDUCERS = {"any", "all", "len", "set", "frozenset", "sorted", "min", "max"}
BUILTINS = set(dir(builtins))
HOOK_ENV = "PYBADS_VERIF"

KINDS = ["GlobalStream", "SeededFromRunData", "RebindEveryLoad", "ReadOnlyConstant", "LoggingOnly", "Unclassified"]


# --------------------------------------------------------------------------- module model


class Mod:
    def __init__(self, path: Path, rel: str):
        self.path, self.rel = path, rel
        try:
            import warnings
            with warnings.catch_warnings():
                warnings.simplefilter("ignore")
                self.tree = ast.parse(path.read_text(), filename=str(path))
        except SyntaxError as ex:
            raise Untranslatable(f"cannot parse {rel}: {ex}")
        self.alias = {}
        self.defs = {}          # qualname -> FunctionDef
        self.classes = {}       # name -> ClassDef
        self._annotate()

    def _annotate(self):
        for n in ast.walk(self.tree):
            if isinstance(n, ast.Import):
                for a in n.names:
                    self.alias[a.asname or a.name.split(".")[0]] = a.name if a.asname else a.name.split(".")[0]
            elif isinstance(n, ast.ImportFrom):
                base = ("." * n.level) + (n.module or "")
                if any(a.name == "*" for a in n.names) and n.level == 0 and base.split(".")[0] not in ("pybads", "gpyreg"):
                    raise Untranslatable(f"{self.rel}: star import from {base}: names cannot be resolved")
                for a in n.names:
                    self.alias[a.asname or a.name] = (base + "." + a.name) if base else a.name

        def rec(node, q, fn, cls, parent):
            for ch in ast.iter_child_nodes(node):
                ch._parent = node
                ch._q, ch._fn, ch._cls = q, fn, cls
                if isinstance(ch, (ast.FunctionDef, ast.AsyncFunctionDef)):
                    nq = ch.name if q == "<module>" else q + "." + ch.name
                    self.defs[nq] = ch
                    # decorators/defaults belong to the enclosing scope, the body to the new one
                    for d in ch.decorator_list + ch.args.defaults + [k for k in ch.args.kw_defaults if k is not None]:
                        d._parent, d._q, d._fn, d._cls = ch, q, fn, cls
                        rec(d, q, fn, cls, ch)
                    for st in ch.body:
                        st._parent, st._q, st._fn, st._cls = ch, nq, ch, cls
                        rec(st, nq, ch, cls, ch)
                elif isinstance(ch, ast.ClassDef):
                    nq = ch.name if q == "<module>" else q + "." + ch.name
                    self.classes[ch.name] = ch
                    rec(ch, nq, fn, ch, node)
                elif isinstance(ch, ast.Lambda):
                    rec(ch, q, fn, cls, node)
                else:
                    rec(ch, q, fn, cls, node)
        self.tree._q, self.tree._fn, self.tree._cls, self.tree._parent = "<module>", None, None, None
        rec(self.tree, "<module>", None, None, None)

    def resolve(self, e):
        """dotted fully-qualified name of an expression through the import aliases, or None."""
        if isinstance(e, ast.Name):
            return self.alias.get(e.id, e.id if e.id in BUILTINS or e.id in DYN_SCOPE else None)
        if isinstance(e, ast.Attribute):
            b = self.resolve(e.value)
            if b is None or (isinstance(e.value, ast.Name) and e.value.id not in self.alias):
                return None
            return b + "." + e.attr
        return None


def norm_q(q):
    """normalise a few spellings: numpy.random.mtrand.X -> numpy.random.X, scipy.stats.qmc via sp."""
    if q is None:
        return None
    q = q.replace("numpy.random.mtrand.", "numpy.random.")
    q = re.sub(r"^scipy\.stats\._qmc\.", "scipy.stats.qmc.", q)
    return q


def src(n, limit=96):
    try:
        s = ast.unparse(n)
    except Exception:
        s = type(n).__name__
    s = " ".join(s.split())
    return s if len(s) <= limit else s[:limit - 3] + "..."


def is_none(e):
    return isinstance(e, ast.Constant) and e.value is None


def root_name(e):
    """Name at the root of an attribute/subscript/call chain (x in x.a[b].c), or None."""
    while isinstance(e, (ast.Attribute, ast.Subscript, ast.Call)):
        e = e.value if not isinstance(e, ast.Call) else e.func
    return e.id if isinstance(e, ast.Name) else None


def chain_attrs(e):
    out = []
    while isinstance(e, (ast.Attribute, ast.Subscript, ast.Call)):
        if isinstance(e, ast.Attribute):
            out.append(e.attr)
            e = e.value
        elif isinstance(e, ast.Subscript):
            e = e.value
        else:
            e = e.func
    return out


def fn_params(fn):
    if fn is None:
        return set()
    a = fn.args
    ps = [x.arg for x in a.posonlyargs + a.args + a.kwonlyargs]
    if a.vararg:
        ps.append(a.vararg.arg)
    if a.kwarg:
        ps.append(a.kwarg.arg)
    return set(ps)


def is_immutable_expr(e, mod: Mod):
    if isinstance(e, ast.Constant):
        return True
    if isinstance(e, ast.Tuple):
        return all(is_immutable_expr(x, mod) for x in e.elts)
    if isinstance(e, ast.UnaryOp):
        return is_immutable_expr(e.operand, mod)
    if isinstance(e, ast.BinOp):
        return is_immutable_expr(e.left, mod) and is_immutable_expr(e.right, mod)
    if isinstance(e, ast.Lambda):
        return True
    if isinstance(e, (ast.Name, ast.Attribute)):
        q = mod.resolve(e)
        if q is None:
            return False
        if isinstance(e, ast.Name):
            return e.id in mod.alias or e.id in BUILTINS        # an imported object / builtin, not a fresh one
        return True                                              # attribute of an imported module (np.inf, np.ndarray)
    if isinstance(e, ast.Call):
        q = mod.resolve(e.func) or ""
        if q in ("frozenset", "tuple", "re.compile", "str", "int", "float", "bool", "bytes", "property"):
            return all(is_immutable_expr(x, mod) for x in e.args)
    if isinstance(e, ast.JoinedStr):
        return True
    return False


# --------------------------------------------------------------------------- the scanner


class Scanner:
    def __init__(self, mods: list[Mod]):
        self.mods = mods
        self.sites = []
        self.by_rel = {m.rel: m for m in mods}
        # global mutation facts
        self.mut_names = {}      # rel -> set of Names that are roots of a mutation / global statement
        self.mut_attrs = set()   # attribute names through which some object is mutated anywhere
        self.rebound_attrs = set()   # attribute names assigned on a receiver other than `self`
        self.arg_names = {}      # rel -> Names passed as plain arguments to non-pure calls / returned
        for m in mods:
            self._mutation_facts(m)

    # ---- emit
    def emit(self, mod, node, cat, seed, kind, what=None, fun=None):
        self.sites.append(dict(file=mod.rel, fun=fun or getattr(node, "_q", "<module>"),
                               what=what or src(node), cat=cat, seed=seed, kind=kind,
                               pos=(getattr(node, "lineno", 0), getattr(node, "col_offset", 0))))

    # ---- mutation facts
    def _mutation_facts(self, m: Mod):
        names, args = set(), set()
        for n in ast.walk(m.tree):
            tgts = []
            if isinstance(n, ast.Assign):
                tgts = n.targets
            elif isinstance(n, (ast.AugAssign, ast.AnnAssign)):
                tgts = [n.target]
            elif isinstance(n, ast.Delete):
                tgts = n.targets
            for t in tgts:
                for tt in (t.elts if isinstance(t, (ast.Tuple, ast.List)) else [t]):
                    if isinstance(tt, (ast.Subscript, ast.Attribute)):
                        r = root_name(tt)
                        if r:
                            names.add(r)
                        inner = tt.value
                        self.mut_attrs.update(chain_attrs(inner))
                        if isinstance(tt, ast.Attribute) and not (isinstance(tt.value, ast.Name) and tt.value.id == "self"):
                            self.rebound_attrs.add(tt.attr)
                    elif isinstance(tt, ast.Name) and isinstance(n, ast.AugAssign):
                        names.add(tt.id)
            if isinstance(n, ast.Global):
                names.update(n.names)
            if isinstance(n, ast.Call):
                if isinstance(n.func, ast.Attribute) and n.func.attr in MUTATORS:
                    r = root_name(n.func.value)
                    if r:
                        names.add(r)
                    self.mut_attrs.update(chain_attrs(n.func.value))
                fq = m.resolve(n.func) or ""
                pure = (isinstance(n.func, ast.Name) and n.func.id in PURE_FUNCS) or fq.startswith("numpy.") and not fq.startswith("numpy.random.")
                if not pure:
                    for a in list(n.args) + [k.value for k in n.keywords]:
                        if isinstance(a, ast.Name):
                            args.add(a.id)
                if isinstance(n.func, ast.Attribute) and isinstance(n.func.value, ast.Name) \
                        and n.func.attr not in READ_METHODS and n.func.attr not in MUTATORS:
                    args.add("." + n.func.value.id)      # unknown method called on the name
            if isinstance(n, ast.Return) and isinstance(n.value, ast.Name):
                args.add(n.value.id)
        self.mut_names[m.rel] = names
        self.arg_names[m.rel] = args

    # ---- seed provenance
    def seed_classes(self, e, mod: Mod, fn, seen=frozenset(), bound=frozenset()):
        """set of seed classes of expression e: subset of {SeedFromData, SeedFromGlobalStream, Unseeded}."""
        if e is None or is_none(e):
            return {"Unseeded"}
        out = set()
        bound = set(bound)
        for sub in ast.walk(e):
            if isinstance(sub, ast.comprehension):
                for t in ast.walk(sub.target):
                    if isinstance(t, ast.Name):
                        bound.add(t.id)
            if isinstance(sub, ast.Lambda):
                bound |= fn_params(sub)
        for sub in ast.walk(e):
            if isinstance(sub, ast.Call):
                q = norm_q(mod.resolve(sub.func))
                if q is None:
                    if isinstance(sub.func, ast.Name) and sub.func.id not in bound and sub.func.id not in fn_params(fn):
                        return {"Unseeded"}          # call of an unknown module-level/global function
                    if isinstance(sub.func, ast.Attribute) and sub.func.attr in GEN_METHODS:
                        rc = self.receiver_classes(sub.func.value, mod, fn)
                        if rc is None:
                            continue                  # ordinary method on data (x.astype, s.random? no)
                        out |= {"SeedFromGlobalStream" if c in ("GlobalStream", "SeedFromGlobalStream") else c for c in rc}
                    continue
                if q in TIME_CALLS or q in ENTROPY_CALLS or q.startswith(ENTROPY_PREFIX) or q in ("hash", "id") or q in DYN_SCOPE:
                    return {"Unseeded"}
                if q.startswith("numpy.random."):
                    tail = q[len("numpy.random."):]
                    if tail in LEGACY_DRAWS:
                        out.add("SeedFromGlobalStream")
                    elif tail in GEN_CTORS:
                        arg = self._seed_arg(sub, ("seed",), 0)
                        out |= self.seed_classes(arg, mod, fn, seen, frozenset(bound))
                    else:
                        return {"Unseeded"}
                elif q == "os.environ.get" or q == "os.getenv":
                    return {"Unseeded"}
        for sub in ast.walk(e):
            if isinstance(sub, ast.Name) and isinstance(sub.ctx, ast.Load):
                nm = sub.id
                if nm in bound or nm in mod.alias or nm in BUILTINS or nm == "self" or nm == "cls":
                    continue
                if nm in fn_params(fn):
                    continue                          # the caller's data
                key = (mod.rel, getattr(fn, "name", None), nm)
                if key in seen:
                    continue
                defs = self._local_defs(nm, fn, sub)
                if defs is None:
                    mdef = self._module_const(nm, mod)
                    if mdef:
                        continue
                    return {"Unseeded"}               # unknown free name
                for d in defs:
                    out |= self.seed_classes(d, mod, fn, seen | {key}, frozenset(bound))
        if "Unseeded" in out:
            return {"Unseeded"}
        if not out:
            out.add("SeedFromData")
        elif out == {"SeedFromGlobalStream"}:
            pass
        return out

    @staticmethod
    def _seed_arg(call, kws, pos):
        for k in call.keywords:
            if k.arg in kws:
                return k.value
            if k.arg is None:
                return ast.Name(id="__unknown_kwargs__", ctx=ast.Load())
        if pos is not None and len(call.args) > pos:
            return call.args[pos]
        return None

    @staticmethod
    def _exclusive(a, b, fn):
        """a and b sit in different arms of one `if` that is not inside a loop of fn: never both executed."""
        def arms(x):
            out, c, p = [], x, getattr(x, "_parent", None)
            while p is not None and c is not fn:
                if isinstance(p, ast.If):
                    out.append((id(p), "body" if any(c is s for s in p.body) else "orelse" if any(c is s for s in p.orelse) else "test", p))
                c, p = p, getattr(p, "_parent", None)
            return out
        aa = {k: (arm, node) for k, arm, node in arms(a)}
        for k, arm, node in arms(b):
            if k in aa and {arm, aa[k][0]} == {"body", "orelse"}:
                c, p = node, getattr(node, "_parent", None)
                while p is not None and c is not fn:
                    if isinstance(p, (ast.For, ast.While, ast.AsyncFor)):
                        return False
                    c, p = p, getattr(p, "_parent", None)
                return True
        return False

    @staticmethod
    def _local_defs(nm, fn, use=None):
        """all expressions assigned to local name nm in function fn (flow-insensitive, except that a
        definition in the other arm of an `if` around `use` is dropped); None if none."""
        if fn is None:
            return None
        out = []
        for n in ast.walk(fn):
            if isinstance(n, ast.Assign):
                if use is not None and Scanner._exclusive(n, use, fn):
                    continue
                for t in n.targets:
                    for tt in ast.walk(t):
                        if isinstance(tt, ast.Name) and tt.id == nm and isinstance(tt.ctx, ast.Store):
                            out.append(n.value)
            elif isinstance(n, (ast.AugAssign, ast.AnnAssign)) and isinstance(n.target, ast.Name) and n.target.id == nm and n.value is not None:
                out.append(n.value)
            elif isinstance(n, (ast.For, ast.comprehension)):
                if any(isinstance(tt, ast.Name) and tt.id == nm for tt in ast.walk(n.target)):
                    out.append(n.iter)
            elif isinstance(n, ast.NamedExpr) and n.target.id == nm:
                out.append(n.value)
            elif isinstance(n, ast.withitem) and n.optional_vars is not None:
                if any(isinstance(tt, ast.Name) and tt.id == nm for tt in ast.walk(n.optional_vars)):
                    out.append(n.context_expr)
        return out or None

    @staticmethod
    def _module_const(nm, mod: Mod):
        for st in mod.tree.body:
            if isinstance(st, ast.Assign) and any(isinstance(t, ast.Name) and t.id == nm for t in st.targets):
                return is_immutable_expr(st.value, mod)
        return False

    # ---- provenance of a generator-like receiver (rng, self.rng, sampler ...)
    def receiver_classes(self, recv, mod: Mod, fn):
        """None: not a generator-like receiver.  Otherwise a set of classes among
        GlobalStream | SeedFromData | SeedFromGlobalStream | Unscrambled | Unseeded."""
        term = recv.attr if isinstance(recv, ast.Attribute) else recv.id if isinstance(recv, ast.Name) else None
        if term is None:
            return None
        defs = []
        if isinstance(recv, ast.Name):
            if recv.id in mod.alias:
                return None
            defs = self._local_defs(recv.id, fn) or []
            if not defs and recv.id in fn_params(fn):
                if recv.id in RNG_KW or RNG_RECV.search(recv.id):
                    return {"GlobalStream"} if self._param_default_none(fn, recv.id) else {"Unseeded"}
                return None
        elif isinstance(recv.value, ast.Name) and recv.value.id == "self" and recv._cls is not None:
            for n in ast.walk(recv._cls):
                if isinstance(n, ast.Assign):
                    for t in n.targets:
                        if isinstance(t, ast.Attribute) and t.attr == term and isinstance(t.value, ast.Name) and t.value.id == "self":
                            defs.append((n.value, n._fn))
        tracked, out = False, set()
        for d in defs:
            dfn = fn
            if isinstance(d, tuple):
                d, dfn = d
            if isinstance(d, ast.Call):
                q = norm_q(mod.resolve(d.func)) or ""
                last = q.split(".")[-1]
                if last == "resolve_rng":
                    tracked = True
                    out |= self._resolve_rng_arg(d, mod, dfn)
                    continue
                if q.startswith("numpy.random.") and last in GEN_CTORS:
                    tracked = True
                    out |= self.seed_classes(self._seed_arg(d, ("seed",), 0), mod, dfn)
                    continue
                if last in QMC_ENGINES and ("qmc" in q or q.startswith("scipy")):
                    tracked = True
                    out |= self.qmc_classes(d, mod, dfn)
                    continue
            if isinstance(d, ast.Name) and d.id in fn_params(dfn) and (d.id in RNG_KW or RNG_RECV.search(d.id)):
                tracked = True
                out |= {"GlobalStream"} if self._param_default_none(dfn, d.id) else {"Unseeded"}
                continue
            if tracked or RNG_RECV.search(term):
                out.add("Unseeded")
        if not defs and RNG_RECV.search(term):
            return {"Unseeded"}
        if not tracked and not RNG_RECV.search(term):
            return None
        return out or {"Unseeded"}

    @staticmethod
    def _param_default_none(fn, name):
        """the rng-like parameter has default None, or no default at all.  Every call that reaches it
        (keyword or positional, anywhere in the scanned trees) is a CRngPass site classified on its own,
        so with all of those allowed the parameter can only hold None, the legacy global-stream proxy,
        or a generator seeded from run-local data.  Any other default => not accepted."""
        a = fn.args
        pos = a.posonlyargs + a.args
        dflt = dict(zip([p.arg for p in pos][len(pos) - len(a.defaults):], a.defaults))
        dflt.update({p.arg: d for p, d in zip(a.kwonlyargs, a.kw_defaults) if d is not None})
        return name not in dflt or is_none(dflt[name])

    def _resolve_rng_arg(self, call, mod, fn):
        arg = call.args[0] if call.args else (call.keywords[0].value if call.keywords else None)
        if arg is None or is_none(arg):
            return {"GlobalStream"}
        if isinstance(arg, ast.Name) and arg.id in fn_params(fn):
            return {"GlobalStream"} if self._param_default_none(fn, arg.id) else {"Unseeded"}
        if isinstance(arg, ast.Call) and isinstance(arg.func, ast.Name) and arg.func.id == "getattr" and len(arg.args) == 3 \
                and isinstance(arg.args[0], ast.Name) and arg.args[0].id == "self" and is_none(arg.args[2]):
            return {"GlobalStream"}       # re-resolving the object's own (already resolved) rng, None otherwise
        if isinstance(arg, ast.Attribute) and isinstance(arg.value, ast.Name) and arg.value.id == "self":
            return {"GlobalStream"}
        return self.seed_classes(arg, mod, fn)

    def qmc_classes(self, call, mod, fn):
        for k in call.keywords:
            if k.arg == "scramble" and isinstance(k.value, ast.Constant) and k.value.value is False:
                return {"Unscrambled"}
        if len(call.args) >= 2 and isinstance(call.args[1], ast.Constant) and call.args[1].value is False:
            return {"Unscrambled"}
        arg = self._seed_arg(call, ("seed", "rng"), None)
        if arg is None and len(call.args) >= 4:
            arg = call.args[3]
        return self.seed_classes(arg, mod, fn)

    @staticmethod
    def print_state_kind(call, mod, fn):
        """np.array2string & co read np.get_printoptions() for every layout option not given in the call.  ReadOnlyConstant
        when max_line_width, threshold, edgeitems, legacy, sign and formatter are all pinned (directly or through `**name` where `name` is
        assigned a dict(...) / {...} literal with constant keys in the same function); LoggingOnly inside display-only
        code (__str__/__repr__/_repr_*, or a module called formatting.py); otherwise Unclassified."""
        need = {"max_line_width", "threshold", "edgeitems", "legacy", "sign", "formatter"}
        have = {k.arg for k in call.keywords if k.arg}
        # ... or the call sits inside `with np.printoptions(<all layout options>)`
        if fn is not None:
            for w in ast.walk(fn):
                if isinstance(w, ast.With) and any(n is call for b in w.body for n in ast.walk(b)):
                    for it in w.items:
                        c = it.context_expr
                        if isinstance(c, ast.Call) and norm_q(mod.resolve(c.func)) == "numpy.printoptions":
                            kws = {k.arg for k in c.keywords if k.arg}
                            if {"linewidth", "threshold", "edgeitems", "legacy", "sign", "formatter", "precision", "suppress",
                                    "floatmode", "nanstr", "infstr"} <= kws:
                                return "ReadOnlyConstant"
        for k in call.keywords:
            if k.arg is None and isinstance(k.value, ast.Name) and fn is not None:
                for st in ast.walk(fn):
                    if isinstance(st, ast.Assign) and any(isinstance(t, ast.Name) and t.id == k.value.id for t in st.targets):
                        v = st.value
                        if isinstance(v, ast.Call) and isinstance(v.func, ast.Name) and v.func.id == "dict" and not v.args:
                            have |= {kw.arg for kw in v.keywords if kw.arg}
                        elif isinstance(v, ast.Dict) and all(isinstance(x, ast.Constant) for x in v.keys):
                            have |= {x.value for x in v.keys}
        if need <= have:
            return "ReadOnlyConstant"
        fname = getattr(fn, "name", "") if fn is not None else ""
        if fname in ("__str__", "__repr__") or fname.startswith("_repr_") or mod.rel.endswith("/formatting.py"):
            return "LoggingOnly"
        return "Unclassified"

    @staticmethod
    def kind_of_class(c):
        return {"SeedFromData": "SeededFromRunData", "SeedFromGlobalStream": "GlobalStream",
                "GlobalStream": "GlobalStream", "Unscrambled": "ReadOnlyConstant"}.get(c, "Unclassified")

    # ---- per-module scan
    def scan(self):
        for m in self.mods:
            self._scan_calls(m)
            self._scan_refs(m)
            self._scan_statements(m)
            self._scan_scopes(m)
        self._scan_time_taint()
        self.sites.sort(key=lambda s: (s["file"], s["pos"], s["cat"], s["seed"]))
        return self.sites

    def _emit_classes(self, mod, node, cat, classes, what=None):
        for c in sorted(classes):
            seed = "SeedNA" if c == "GlobalStream" and cat == "CDraw" else ("SeedNA" if c == "GlobalStream" else c)
            if c == "GlobalStream" and cat in ("CGenCtor", "CQmcCtor", "CSeedWrite"):
                seed = "SeedFromGlobalStream"
            self.emit(mod, node, cat, seed, self.kind_of_class(c), what)

    def _scan_calls(self, m: Mod):
        for n in ast.walk(m.tree):
            if not isinstance(n, ast.Call):
                continue
            q = norm_q(m.resolve(n.func))
            fn = n._fn
            n.func._handled = True
            handled = True
            if q and q.startswith("numpy.random."):
                tail = q[len("numpy.random."):]
                if tail in LEGACY_DRAWS:
                    self.emit(m, n, "CDraw", "SeedNA", "GlobalStream")
                elif tail == "seed":
                    arg = self._seed_arg(n, ("seed",), 0)
                    self._emit_classes(m, n, "CSeedWrite", self.seed_classes(arg, m, fn))
                elif tail in GEN_CTORS:
                    arg = self._seed_arg(n, ("seed", "bit_generator", "entropy"), 0)
                    self._emit_classes(m, n, "CGenCtor", self.seed_classes(arg, m, fn))
                else:
                    self.emit(m, n, "CSeedWrite" if tail == "set_state" else "CDraw", "Unseeded", "Unclassified")
            elif q and (q.startswith(ENTROPY_PREFIX) or q in ENTROPY_CALLS):
                self.emit(m, n, "COsEntropy", "Unseeded", "Unclassified")
            elif q in TIME_CALLS:
                self.emit(m, n, "CTime", "SeedNA", "LoggingOnly")
            elif q in ("hash", "id"):
                self.emit(m, n, "CHashId", "Unseeded", "Unclassified")
            elif q in DYN_SCOPE:
                pass                                   # classified in _scan_scopes
            elif q and q.split(".")[-1] in QMC_ENGINES and (".qmc." in q or q.startswith("scipy")):
                self._emit_classes(m, n, "CQmcCtor", self.qmc_classes(n, m, fn))
            elif q and ".qmc." in q and q.split(".")[-1] not in QMC_PURE:
                self.emit(m, n, "CQmcCtor", "Unseeded", "Unclassified")
            elif q and q.startswith("scipy.") and q.split(".")[-1] in SCIPY_STOCHASTIC:
                arg = self._seed_arg(n, ("seed", "rng"), None)
                self._emit_classes(m, n, "CRngPass", self.seed_classes(arg, m, fn))
            elif q in ("os.environ.get", "os.getenv") or (q or "").startswith("os.environ"):
                ok = bool(n.args) and isinstance(n.args[0], ast.Constant) and n.args[0].value == HOOK_ENV
                self.emit(m, n, "CEnvRead", "SeedNA", "ReadOnlyConstant" if ok else "Unclassified")
            elif q in PRINT_STATE_CALLS:
                self.emit(m, n, "CPrintState", "SeedNA", self.print_state_kind(n, m, fn))
            elif q and q.startswith("logging."):
                self.emit(m, n, "CLogging", "SeedNA", "LoggingOnly")
            elif q in ("functools.lru_cache", "functools.cache"):
                self.emit(m, n, "CModuleMutable", "SeedNA", "Unclassified")
            else:
                handled = False
            # method draws on generator-like receivers
            if not handled and isinstance(n.func, ast.Attribute):
                if n.func.attr in GEN_METHODS and q is None:
                    rc = self.receiver_classes(n.func.value, m, fn)
                    if rc is not None:
                        self._emit_classes(m, n, "CDraw", rc)
                elif n.func.attr in ("setLevel", "addHandler", "removeHandler", "basicConfig") and q is None:
                    self.emit(m, n, "CLogging", "SeedNA", "LoggingOnly")
                elif n.func.attr == "rvs":
                    arg = self._seed_arg(n, ("random_state",), None)
                    if arg is None:
                        self.emit(m, n, "CDraw", "SeedNA", "GlobalStream")
                    else:
                        self._emit_classes(m, n, "CDraw", self.seed_classes(arg, m, fn))
            # calls passing rng= / random_state= / seed=   (other than the constructors handled above)
            if not (q and (q.startswith("numpy.random.") or q.split(".")[-1] in QMC_ENGINES or q.split(".")[-1] in SCIPY_STOCHASTIC)):
                for k in n.keywords:
                    if k.arg in RNG_KW:
                        self._rng_pass(m, n, k.value, fn)
                    if k.arg is None and isinstance(n.func, (ast.Name, ast.Attribute)):
                        callee = n.func.id if isinstance(n.func, ast.Name) else n.func.attr
                        if callee in self._fn_with_rng_param():
                            self.emit(m, n, "CRngPass", "Unseeded", "Unclassified", what="**kwargs into " + src(n.func))
                # positional reach of an rng parameter
                callee = n.func.id if isinstance(n.func, ast.Name) else n.func.attr if isinstance(n.func, ast.Attribute) else None
                for idx in self._fn_with_rng_param().get(callee, []):
                    if len(n.args) > idx or any(isinstance(a, ast.Starred) for a in n.args):
                        arg = n.args[idx] if len(n.args) > idx and not any(isinstance(a, ast.Starred) for a in n.args) else None
                        if arg is None:
                            self.emit(m, n, "CRngPass", "Unseeded", "Unclassified", what="*args into " + src(n.func))
                        else:
                            self._rng_pass(m, n, arg, fn)

    def _rng_pass(self, m, call, val, fn):
        what = src(call.func) + "(... rng/seed=" + src(val, 40) + ")"
        if src(call.func).split(".")[-1] == "resolve_rng":
            for c in sorted(self._resolve_rng_arg(call, m, fn)):
                self.emit(m, call, "CRngPass", "SeedNA" if c == "GlobalStream" else c, self.kind_of_class(c), what)
        elif is_none(val):
            self.emit(m, call, "CRngPass", "SeedNA", "GlobalStream", what)
        elif isinstance(val, ast.Name) and val.id in fn_params(fn) and val.id in RNG_KW and self._param_default_none(fn, val.id):
            self.emit(m, call, "CRngPass", "SeedNA", "GlobalStream", what)
        elif isinstance(val, (ast.Name, ast.Attribute)) and (rc := self.receiver_classes(val, m, fn)) is not None:
            for c in sorted(rc):
                self.emit(m, call, "CRngPass", "SeedNA" if c == "GlobalStream" else c, self.kind_of_class(c), what)
        else:
            for c in sorted(self.seed_classes(val, m, fn)):
                self.emit(m, call, "CRngPass", c, self.kind_of_class(c), what)

    def _fn_with_rng_param(self):
        """bare function/method name -> positional indices of an rng-like parameter (self excluded for methods)."""
        if hasattr(self, "_rngfn"):
            return self._rngfn
        out = {}
        for m in self.mods:
            for qn, f in m.defs.items():
                pos = [p.arg for p in f.args.posonlyargs + f.args.args]
                is_method = f._cls is not None and pos and pos[0] in ("self", "cls")
                for i, p in enumerate(pos):
                    if p in ("rng", "random_state"):
                        name = f.name
                        idx = i - 1 if is_method else i
                        out.setdefault(name, []).append(idx)
                        if f.name == "__init__" and f._cls is not None:
                            out.setdefault(f._cls.name, []).append(idx)
        self._rngfn = out
        return out

    def _scan_refs(self, m: Mod):
        """references (not calls) to numpy.random members / entropy sources, e.g. f = np.random.rand."""
        for n in ast.walk(m.tree):
            if isinstance(n, (ast.Attribute, ast.Name)) and not getattr(n, "_handled", False) and isinstance(getattr(n, "ctx", None), ast.Load):
                par = getattr(n, "_parent", None)
                if isinstance(par, ast.Attribute):
                    continue                                   # inner part of a longer chain
                q = norm_q(m.resolve(n))
                if not q or isinstance(n, ast.Name) and n.id not in m.alias:
                    continue
                if q.startswith("numpy.random."):
                    tail = q[len("numpy.random."):]
                    in_isinstance = False
                    p = par
                    while p is not None and not isinstance(p, ast.stmt):
                        if isinstance(p, ast.Call) and isinstance(p.func, ast.Name) and p.func.id == "isinstance":
                            in_isinstance = True
                        p = getattr(p, "_parent", None)
                    if isinstance(par, ast.arg) or in_isinstance or self._in_annotation(n):
                        continue
                    if tail in LEGACY_DRAWS:
                        self.emit(m, n, "CDraw", "SeedNA", "GlobalStream", what="reference " + src(n))
                    else:
                        self.emit(m, n, "CGenCtor", "Unseeded", "Unclassified", what="reference " + src(n))
                elif q == "numpy.random":
                    if not isinstance(par, (ast.alias,)):
                        self.emit(m, n, "CDraw", "Unseeded", "Unclassified", what="reference to the module " + src(n))
                elif q.startswith(ENTROPY_PREFIX) or q in ENTROPY_CALLS or q == "random":
                    self.emit(m, n, "COsEntropy", "Unseeded", "Unclassified", what="reference " + src(n))

    @staticmethod
    def _in_annotation(n):
        p, c = getattr(n, "_parent", None), n
        while p is not None:
            if isinstance(p, ast.arg) and p.annotation is c:
                return True
            if isinstance(p, ast.AnnAssign) and p.annotation is c:
                return True
            if isinstance(p, (ast.FunctionDef, ast.AsyncFunctionDef)) and p.returns is c:
                return True
            if isinstance(p, ast.stmt):
                return False
            c, p = p, getattr(p, "_parent", None)
        return False

    # ---- statements: global, set iteration, module/class-level state, mutable defaults
    def _scan_statements(self, m: Mod):
        mut_here = self.mut_names[m.rel]
        all_mut = set().union(*self.mut_names.values())
        args_here = self.arg_names[m.rel]
        for n in ast.walk(m.tree):
            if isinstance(n, ast.Global):
                self.emit(m, n, "CGlobalStmt", "SeedNA", "Unclassified")
            if isinstance(n, (ast.For, ast.comprehension)):
                it = n.iter
                if self._is_set_expr(it, m, n._fn if hasattr(n, "_fn") else None):
                    ok = False
                    if isinstance(n, ast.comprehension):
                        comp = n._parent
                        cp = getattr(comp, "_parent", None)
                        if isinstance(comp, ast.SetComp):
                            ok = True
                        if isinstance(cp, ast.Call) and isinstance(cp.func, ast.Name) and cp.func.id in ORDER_FREE_REDUCERS:
                            ok = True
                    self.emit(m, n if isinstance(n, ast.For) else n._parent, "CSetIter", "SeedNA",
                              "ReadOnlyConstant" if ok else "Unclassified", what="iteration over set " + src(it, 60))
            if isinstance(n, (ast.FunctionDef, ast.AsyncFunctionDef, ast.Lambda)):
                a = n.args
                pos = a.posonlyargs + a.args
                pairs = list(zip(pos[len(pos) - len(a.defaults):], a.defaults)) + \
                    [(p, d) for p, d in zip(a.kwonlyargs, a.kw_defaults) if d is not None]
                for p, d in pairs:
                    if is_immutable_expr(d, m):
                        continue
                    self._mutable_default(m, n, p.arg, d)
            for d in getattr(n, "decorator_list", []) if isinstance(n, (ast.FunctionDef, ast.AsyncFunctionDef)) else []:
                q = m.resolve(d.func if isinstance(d, ast.Call) else d) or ""
                if q in ("functools.lru_cache", "functools.cache", "lru_cache", "cache") or q.endswith(".lru_cache") or q.endswith("functools.cache"):
                    self.emit(m, d, "CModuleMutable", "SeedNA", "Unclassified", what="@" + src(d), fun=n._q)

        # writes, from inside a function, to an object that lives as long as the process: an attribute /
        # item of a module-level function or class (f._memo = {}, BADS._seeded = True, cls.x = ...,
        # type(self).x = ..., self.__class__.x = ...), of an imported module/object (np.foo = ..., mod.CACHE[k] = v),
        # a mutating method on such a chain, or setattr(...) on one.
        toplevel = {st.name for st in m.tree.body if isinstance(st, (ast.FunctionDef, ast.AsyncFunctionDef, ast.ClassDef))}

        def global_root(e):
            chain = e
            while isinstance(chain, (ast.Attribute, ast.Subscript, ast.Call)):
                if isinstance(chain, ast.Attribute) and chain.attr == "__class__":
                    return "self.__class__"
                if isinstance(chain, ast.Call):
                    if isinstance(chain.func, ast.Name) and chain.func.id == "type":
                        return "type(...)"
                    chain = chain.func
                else:
                    chain = chain.value
            if isinstance(chain, ast.Name) and (chain.id in toplevel or chain.id in m.alias or chain.id == "cls"):
                fnode = getattr(e, "_fn", None)
                if chain.id in fn_params(fnode) and chain.id != "cls":
                    return None                        # shadowed by a parameter
                if fnode is not None and self._local_defs(chain.id, fnode):
                    return None                        # shadowed by a local
                return chain.id
            return None
        for n in ast.walk(m.tree):
            if getattr(n, "_fn", None) is None:
                continue                               # module/class level statements are handled by level()
            tgts = []
            if isinstance(n, ast.Assign):
                tgts = n.targets
            elif isinstance(n, (ast.AugAssign, ast.AnnAssign)):
                tgts = [n.target]
            elif isinstance(n, ast.Delete):
                tgts = n.targets
            for t in tgts:
                for tt in (t.elts if isinstance(t, (ast.Tuple, ast.List)) else [t]):
                    if isinstance(tt, (ast.Attribute, ast.Subscript)):
                        r = global_root(tt)
                        if r:
                            self.emit(m, n, "CModuleMutable", "SeedNA", "Unclassified", what=f"write to process-global object {r}: " + src(n, 60))
            if isinstance(n, ast.Call):
                if isinstance(n.func, ast.Attribute) and n.func.attr in MUTATORS and isinstance(n.func.value, (ast.Attribute, ast.Subscript)):
                    r = global_root(n.func.value)
                    if r:
                        self.emit(m, n, "CModuleMutable", "SeedNA", "Unclassified", what=f"mutation of process-global object {r}: " + src(n, 60))
                if isinstance(n.func, ast.Name) and n.func.id in ("setattr", "delattr") and n.func.id not in m.alias and n.args:
                    a0 = n.args[0]
                    r = global_root(ast.Attribute(value=a0, attr="_", ctx=ast.Load())) if isinstance(a0, (ast.Name, ast.Attribute, ast.Call, ast.Subscript)) else None
                    if r or not (isinstance(a0, ast.Name) and a0.id == "self"):
                        self.emit(m, n, "CModuleMutable", "SeedNA", "Unclassified", what="setattr on " + (r or src(a0, 30)) + ": " + src(n, 60))

        def level(stmts, scope, cls):
            for st in stmts:
                if isinstance(st, (ast.Import, ast.ImportFrom, ast.FunctionDef, ast.AsyncFunctionDef, ast.Pass)):
                    continue
                if isinstance(st, ast.ClassDef):
                    level(st.body, st.name if scope == "<module>" else scope + "." + st.name, st)
                    continue
                if isinstance(st, ast.Expr) and isinstance(st.value, ast.Constant):
                    continue                               # docstring
                if isinstance(st, ast.AnnAssign) and st.value is None:
                    continue
                if isinstance(st, (ast.If, ast.Try, ast.With)):
                    if isinstance(st, ast.If) and "__name__" in src(st.test):
                        continue
                    inner = list(getattr(st, "body", [])) + list(getattr(st, "orelse", [])) + list(getattr(st, "finalbody", []))
                    for h in getattr(st, "handlers", []):
                        inner += h.body
                    level(inner, scope, cls)
                    continue
                cat = "CClassMutable" if cls is not None else "CModuleMutable"
                if isinstance(st, (ast.Assign, ast.AnnAssign)):
                    val = st.value
                    tg = st.targets if isinstance(st, ast.Assign) else [st.target]
                    names = [t.id for t in tg if isinstance(t, ast.Name)]
                    if len(names) != len(tg):
                        self.emit(m, st, cat, "SeedNA", "Unclassified", fun=scope)
                        continue
                    if is_immutable_expr(val, m):
                        # an immutable constant is still process-global STATE if something re-binds it:
                        # module level: `global x` / augmented assignment;  class level: `Cls.x = ...` / `cls.x = ...`
                        if any(nm in mut_here for nm in names if cls is None) or \
                                any(nm in self.rebound_attrs for nm in names if cls is not None):
                            self.emit(m, st, cat, "SeedNA", "Unclassified", what="rebound/mutated: " + src(st), fun=scope)
                        continue
                    if isinstance(val, ast.Call) and (m.resolve(val.func) or "").startswith("logging."):
                        continue                           # emitted by _scan_calls as CLogging
                    stateless = isinstance(val, ast.Call) and isinstance(val.func, ast.Name) and self._stateless_class(m, val.func.id) and not val.args and not val.keywords
                    mutable_lit = isinstance(val, (ast.List, ast.Dict, ast.Set, ast.ListComp, ast.DictComp, ast.SetComp)) or \
                        (isinstance(val, ast.Call) and (m.resolve(val.func) or src(val.func)).split(".")[-1] in MUTABLE_CTORS)
                    if stateless:
                        self.emit(m, st, cat, "SeedNA", "ReadOnlyConstant", what="stateless singleton " + src(st), fun=scope)
                    elif mutable_lit:
                        bad = [nm for nm in names if (nm in all_mut if not nm.startswith("__") else nm in mut_here)
                               or nm in self.mut_attrs or (cls is not None and nm in self.rebound_attrs)
                               or nm in args_here or ("." + nm) in args_here]
                        self.emit(m, st, cat, "SeedNA", "Unclassified" if bad else "ReadOnlyConstant", fun=scope)
                    else:
                        self.emit(m, st, cat, "SeedNA", "Unclassified", fun=scope)
                elif isinstance(st, ast.Expr) and isinstance(st.value, ast.Call) and (m.resolve(st.value.func) or "").startswith("logging."):
                    continue
                else:
                    self.emit(m, st, cat, "SeedNA", "Unclassified", what="module/class-level statement " + src(st, 60), fun=scope)
        level(m.tree.body, "<module>", None)

    def _stateless_class(self, m: Mod, name):
        c = m.classes.get(name)
        if c is None or c.bases or c.keywords:
            return False
        for n in ast.walk(c):
            if isinstance(n, (ast.Assign, ast.AugAssign, ast.AnnAssign, ast.Global, ast.Nonlocal)):
                return False
            if isinstance(n, ast.FunctionDef) and n.name == "__init__":
                return False
        return True

    def _is_set_expr(self, it, m, fn, depth=0):
        if isinstance(it, (ast.Set, ast.SetComp)):
            return True
        if isinstance(it, ast.Call) and isinstance(it.func, ast.Name) and it.func.id in ("set", "frozenset") and it.func.id not in m.alias:
            return True
        if isinstance(it, ast.BinOp) and isinstance(it.op, (ast.BitOr, ast.BitAnd, ast.Sub, ast.BitXor)):
            return self._is_set_expr(it.left, m, fn, depth) or self._is_set_expr(it.right, m, fn, depth)
        if isinstance(it, ast.Call) and isinstance(it.func, ast.Attribute) and it.func.attr in ("union", "intersection", "difference", "symmetric_difference"):
            return True
        if isinstance(it, ast.Name) and fn is not None and depth < 2:
            defs = self._local_defs(it.id, fn)
            return bool(defs) and any(self._is_set_expr(d, m, fn, depth + 1) for d in defs)
        return False

    def _mutable_default(self, m, fn, pname, dflt):
        """default list/dict/...: ReadOnlyConstant iff the parameter is never mutated, never escapes except
        as `self.<attr> = p` with <attr> never mutated anywhere, never passed to a non-pure call."""
        body = fn.body if isinstance(fn.body, list) else [fn.body]
        bad = []
        for st in body:
            for n in ast.walk(st):
                if isinstance(n, ast.Name) and n.id == pname:
                    par = getattr(n, "_parent", None)
                    if isinstance(n.ctx, ast.Store) or isinstance(n.ctx, ast.Del):
                        continue                           # rebinding the local name is harmless
                    if isinstance(par, ast.Assign) and par.value is n:
                        for t in par.targets:
                            if isinstance(t, ast.Attribute) and isinstance(t.value, ast.Name) and t.value.id == "self":
                                if t.attr in self.mut_attrs:
                                    bad.append("aliased to mutated attribute ." + t.attr)
                            elif isinstance(t, ast.Name):
                                if t.id in self.mut_names[m.rel]:
                                    bad.append("aliased to mutated name " + t.id)
                            else:
                                bad.append("stored into " + src(t))
                    elif isinstance(par, ast.Call) and n in par.args + [k.value for k in par.keywords]:
                        fq = m.resolve(par.func) or ""
                        if not ((isinstance(par.func, ast.Name) and par.func.id in PURE_FUNCS) or (fq.startswith("numpy.") and not fq.startswith("numpy.random."))):
                            bad.append("passed to " + src(par.func))
                    elif isinstance(par, ast.Attribute) and par.value is n:
                        gp = getattr(par, "_parent", None)
                        if isinstance(gp, ast.Call) and gp.func is par and par.attr not in READ_METHODS:
                            bad.append("method ." + par.attr)
                    elif isinstance(par, ast.Subscript) and par.value is n:
                        if isinstance(par.ctx, (ast.Store, ast.Del)):
                            bad.append("item assignment")
                        gp = getattr(par, "_parent", None)
                        if isinstance(gp, ast.AugAssign) and gp.target is par:
                            bad.append("augmented item assignment")
                    elif isinstance(par, (ast.Return, ast.Yield)):
                        bad.append("returned")
                    elif isinstance(par, ast.AugAssign) and par.target is n:
                        bad.append("augmented assignment")
        if pname in self.mut_names[m.rel] and any(
                isinstance(x, (ast.Call,)) and isinstance(x.func, ast.Attribute) and x.func.attr in MUTATORS and root_name(x.func.value) == pname
                for st in body for x in ast.walk(st)):
            bad.append("mutating method")
        what = f"default {pname}={src(dflt, 50)}" + (" [" + "; ".join(sorted(set(bad))) + "]" if bad else "")
        q = getattr(fn, "name", "<lambda>")
        scope = fn._q + "." + q if fn._q != "<module>" else q
        self.emit(m, dflt, "CMutableDefault", "SeedNA", "Unclassified" if bad else "ReadOnlyConstant", what=what, fun=scope)

    # ---- exec / eval / globals
    def _scan_scopes(self, m: Mod):
        calls = [n for n in ast.walk(m.tree) if isinstance(n, ast.Call) and isinstance(n.func, ast.Name)
                 and n.func.id in DYN_SCOPE and n.func.id not in m.alias]
        if not calls:
            return
        ok_nodes = self._options_loader_pattern(m, calls)
        for n in calls:
            self.emit(m, n, "CDynScope", "SeedNA", "RebindEveryLoad" if id(n) in ok_nodes else "Unclassified")

    def _options_loader_pattern(self, m: Mod, calls):
        """The one accepted use: inside ONE function,
             for key, val in <param>.items():           (unconditional, top level of the function)
                 [g = globals()]
                 exec(f"{key} = {val}", g | globals())
           followed (later top-level statement) by the only eval( of the module, `eval(value)`, whose
           globals are therefore freshly re-bound on every load.  Returns ids of the calls that match."""
        ok = set()
        fns = {id(c._fn): c._fn for c in calls}
        if len(fns) != 1 or None in [c._fn for c in calls]:
            return ok
        fn = next(iter(fns.values()))
        params = fn_params(fn)
        loop = None
        for i, st in enumerate(fn.body):
            if isinstance(st, ast.For) and isinstance(st.iter, ast.Call) and isinstance(st.iter.func, ast.Attribute) \
                    and st.iter.func.attr == "items" and isinstance(st.iter.func.value, ast.Name) and st.iter.func.value.id in params \
                    and isinstance(st.target, ast.Tuple) and len(st.target.elts) == 2 and all(isinstance(e, ast.Name) for e in st.target.elts):
                loop, loop_i = st, i
                break
        if loop is None:
            return ok
        k, v = [e.id for e in loop.target.elts]
        gnames = set()
        execs = []
        for st in loop.body:
            if isinstance(st, ast.Assign) and isinstance(st.value, ast.Call) and src(st.value) == "globals()" and len(st.targets) == 1 and isinstance(st.targets[0], ast.Name):
                gnames.add(st.targets[0].id)
            elif isinstance(st, ast.Expr) and isinstance(st.value, ast.Call) and src(st.value.func) == "exec":
                execs.append(st.value)
            else:
                return ok
        if len(execs) != 1:
            return ok
        ex = execs[0]
        if len(ex.args) != 2 or src(ex.args[0]) != "f'{%s} = {%s}'" % (k, v):
            return ok
        if not (src(ex.args[1]) == "globals()" or (isinstance(ex.args[1], ast.Name) and ex.args[1].id in gnames)):
            return ok
        in_loop = {id(c) for c in calls if any(c is x for x in ast.walk(loop))}
        rest = [c for c in calls if id(c) not in in_loop]
        for c in rest:
            if src(c.func) != "eval" or len(c.args) != 1 or c.keywords:
                return ok
            # must be in a top-level statement after the loop
            top = c
            while getattr(top, "_parent", None) is not fn:
                top = top._parent
            if top not in fn.body or fn.body.index(top) <= loop_i:
                return ok
        ok = in_loop | {id(c) for c in rest}
        local_names = set(params)
        for x in ast.walk(fn):
            if isinstance(x, ast.Name) and isinstance(x.ctx, ast.Store):
                local_names.add(x.id)
        self.options_loader = (m.rel, fn._q + "." + fn.name if fn._q != "<module>" else fn.name, local_names)
        return ok

    # ---- time taint.  Deliberately LOCAL: within one function (local names) and through the return
    # value of functions that return a time-derived value (by bare name, fixpoint) or that are
    # value-returning methods of a timer-like class (one that stores a clock reading in an attribute:
    # this is what makes Timer.get_duration a time source).  No propagation through arguments,
    # attributes or containers.  Sinks: a time-derived value as argument of a seed write / generator construction /
    # draw, or as the test of a branch/loop that does more than bookkeeping assignments and logging.
    def _scan_time_taint(self):
        t_fun = set()
        t_attr = set()       # kept empty: attribute/container taint is NOT tracked (see above)
        t_local = {}         # (rel, qualname) -> names
        # a class that stores a clock reading in one of its attributes is a timer: whatever its
        # methods return is time-derived
        for m in self.mods:
            for c in m.classes.values():
                timerlike = False
                for n in ast.walk(c):
                    if isinstance(n, ast.Assign) and any(isinstance(x, ast.Call) and norm_q(m.resolve(x.func)) in TIME_CALLS for x in ast.walk(n.value)):
                        for t in n.targets:
                            while isinstance(t, ast.Subscript):
                                t = t.value
                            if isinstance(t, ast.Attribute) and isinstance(t.value, ast.Name) and t.value.id == "self":
                                timerlike = True
                if timerlike:
                    for f in c.body:
                        if isinstance(f, ast.FunctionDef) and any(isinstance(r, ast.Return) and r.value is not None and not is_none(r.value) for r in ast.walk(f)):
                            t_fun.add(f.name)

        def callee_name(c):
            return c.func.id if isinstance(c.func, ast.Name) else c.func.attr if isinstance(c.func, ast.Attribute) else None

        def tainted(e, m, node):
            """value of e is time-derived.  The result of a call is time-derived iff the callee is a
            clock / a function returning time, or the callee is a NumPy/math/builtin function (pure
            arithmetic) applied to a time-derived argument; an unknown callee with a time-derived
            argument is NOT followed (no propagation through arguments)."""
            sk = (m.rel, getattr(node, "_q", "<module>"))

            def rec(s):
                if isinstance(s, ast.Call):
                    q = norm_q(m.resolve(s.func))
                    if q in TIME_CALLS or callee_name(s) in t_fun:
                        return True
                    pure = q is not None and (q.split(".")[0] in ("numpy", "math") or q in BUILTINS) and not q.startswith("numpy.random.")
                    if pure:
                        return any(rec(a) for a in list(s.args) + [k.value for k in s.keywords])
                    return False
                if isinstance(s, ast.Name):
                    return isinstance(s.ctx, ast.Load) and s.id in t_local.get(sk, ())
                if isinstance(s, (ast.Lambda,)):
                    return False
                return any(rec(c) for c in ast.iter_child_nodes(s))
            return rec(e)

        def taint_target(t, m, node):
            sk = (m.rel, getattr(node, "_q", "<module>"))
            cls = getattr(node, "_cls", None)
            ch = False
            for tt in (t.elts if isinstance(t, (ast.Tuple, ast.List)) else [t]):
                while isinstance(tt, (ast.Subscript, ast.Starred)):
                    tt = tt.value
                if isinstance(tt, ast.Name):
                    if tt.id not in t_local.setdefault(sk, set()):
                        t_local[sk].add(tt.id)
                        ch = True
            return ch

        def is_log_call(c):
            return isinstance(c, ast.Call) and bool(re.search(
                r"(^|\.)(logger|logging|warnings)\.|\.(debug|info|warning|warn|error|log)$|^print$", src(c.func)))

        changed, rounds = True, 0
        while changed:
            changed, rounds = False, rounds + 1
            if rounds > 40:
                raise Untranslatable("time-taint analysis did not reach a fixpoint")
            for m in self.mods:
                for n in ast.walk(m.tree):
                    if isinstance(n, ast.Assign) and tainted(n.value, m, n):
                        for t in n.targets:
                            changed |= taint_target(t, m, n)
                    elif isinstance(n, (ast.AugAssign, ast.AnnAssign)) and n.value is not None and tainted(n.value, m, n):
                        changed |= taint_target(n.target, m, n)
                    elif isinstance(n, ast.For) and tainted(n.iter, m, n):
                        changed |= taint_target(n.target, m, n)
                    elif isinstance(n, ast.Return) and n.value is not None and tainted(n.value, m, n):
                        f = n._fn
                        if isinstance(f, (ast.FunctionDef, ast.AsyncFunctionDef)) and f.name not in t_fun:
                            t_fun.add(f.name)
                            changed = True
                    elif isinstance(n, ast.If) and tainted(n.test, m, n):
                        for st in n.body + n.orelse:
                            for x in ast.walk(st):
                                if isinstance(x, ast.Assign):
                                    for t in x.targets:
                                        changed |= taint_target(t, m, x)
                                elif isinstance(x, (ast.AugAssign, ast.AnnAssign)):
                                    changed |= taint_target(x.target, m, x)
        for m in self.mods:
            for n in ast.walk(m.tree):
                if isinstance(n, ast.If) and tainted(n.test, m, n):
                    benign = True
                    for st in n.body + n.orelse:
                        for x in ast.walk(st):
                            if isinstance(x, ast.stmt) and not isinstance(x, (ast.Assign, ast.AugAssign, ast.AnnAssign, ast.Pass, ast.If, ast.Expr)):
                                benign = False
                            if isinstance(x, ast.Expr) and not (is_log_call(x.value) or isinstance(x.value, ast.Constant)):
                                benign = False
                    if not benign:
                        self.emit(m, n, "CTimeSink", "Unseeded", "Unclassified", what="time-dependent branch: if " + src(n.test, 60))
                elif isinstance(n, (ast.While, ast.Assert)) and tainted(n.test, m, n):
                    self.emit(m, n, "CTimeSink", "Unseeded", "Unclassified",
                              what="time-dependent " + type(n).__name__.lower() + ": " + src(n.test, 60))
                elif isinstance(n, ast.Call):
                    q = norm_q(m.resolve(n.func)) or ""
                    is_rng = q.startswith("numpy.random.") or q.split(".")[-1] in QMC_ENGINES or \
                        (isinstance(n.func, ast.Attribute) and n.func.attr in GEN_METHODS and not q
                         and self.receiver_classes(n.func.value, m, n._fn) is not None)
                    if is_rng and any(tainted(a, m, n) for a in list(n.args) + [k.value for k in n.keywords]):
                        self.emit(m, n, "CTimeSink", "Unseeded", "Unclassified", what="time-derived argument: " + src(n, 70))
        self.time_taint = dict(functions_returning_time=sorted(t_fun),
                               attrs=sorted("%s:%s.%s" % a for a in t_attr),
                               locals={"%s:%s" % k: sorted(v) for k, v in sorted(t_local.items())})


# --------------------------------------------------------------------------- layout (order facts)


def _callee_key(n: ast.Call, m: Mod, cls_methods, scanned_classes):
    """name under which a call is looked up in the may-draw table, or None if it cannot draw:
       self.NAME(...)  -> the method of the same class if it has one; if it has none and the class only
                          inherits from classes outside the scanned trees (dict, MutableMapping ...) the
                          call goes to library code that is not a BADS/gpyreg draw site => None;
       f(...) / X.f(...) -> bare name f (over-approximation across all scanned modules);
       numpy / scipy / os / logging / math functions -> None (numpy.random is handled separately)."""
    q = norm_q(m.resolve(n.func)) or ""
    if q.startswith(("numpy.", "scipy.", "os.", "logging.", "math.", "copy.", "warnings.", "re.")):
        return None
    if isinstance(n.func, ast.Name):
        if n.func.id in fn_params(getattr(n, "_fn", None)):
            return "<unknown callable>"                 # a callable handed in by the caller (target, constraint)
        if (n.func.id in BUILTINS or n.func.id in DYN_SCOPE) and n.func.id not in m.defs and n.func.id not in m.alias:
            return None                                 # builtin (the loader's eval( is classified on its own)
        return n.func.id
    if isinstance(n.func, ast.Attribute):
        if n.func.attr.startswith("__") and n.func.attr.endswith("__"):
            return None                                 # super().__init__() etc.
        if isinstance(n.func.value, ast.Name) and n.func.value.id == "self" and getattr(n, "_cls", None) is not None:
            c = n._cls
            if n.func.attr in cls_methods.get((m.rel, c.name), ()):
                return c.name + "." + n.func.attr
            bases = [src(b).split(".")[-1] for b in c.bases]
            if any(b in scanned_classes for b in bases):
                return n.func.attr
            stored = any(isinstance(x, ast.Attribute) and isinstance(x.ctx, ast.Store) and x.attr == n.func.attr
                         and isinstance(x.value, ast.Name) and x.value.id == "self" for x in ast.walk(c))
            return "<unknown callable>" if stored else None   # self.fun(...) : an object stored on the instance
        return n.func.attr
    return "<unknown callable>"


def _may_draw_table(sc: Scanner):
    """function / method / class name -> True if its body (transitively) contains a random event
    (draw, generator/QMC construction, entropy).  Keys: bare name f, and Class.f for methods."""
    cls_methods, scanned_classes = {}, set()
    for m in sc.mods:
        for c in m.classes.values():
            scanned_classes.add(c.name)
            cls_methods[(m.rel, c.name)] = {f.name for f in c.body if isinstance(f, (ast.FunctionDef, ast.AsyncFunctionDef))}
    direct, calls = {}, {}
    for m in sc.mods:
        ev = {(s["fun"]) for s in sc.sites if s["file"] == m.rel and s["cat"] in ("CDraw", "CGenCtor", "CQmcCtor", "COsEntropy")
              and not (s["cat"] == "CDraw" and s["seed"] == "Unscrambled")}
        for qn, f in m.defs.items():
            names = [] if (f.name.startswith("__") and f.name.endswith("__")) else [f.name]
            if f._cls is not None:
                names.append(f._cls.name + "." + f.name)
                if f.name in ("__init__", "__call__", "__new__"):
                    names.append(f._cls.name)
            d = qn in ev or any(e.startswith(qn + ".") for e in ev)
            cs = set()
            for n in ast.walk(f):
                if isinstance(n, ast.Call):
                    k = _callee_key(n, m, cls_methods, scanned_classes)
                    if k:
                        cs.add(k)
            for nm in names:
                direct[nm] = direct.get(nm, False) or d
                calls.setdefault(nm, set()).update(cs)
    may = dict(direct)
    may["<unknown callable>"] = True
    changed = True
    while changed:
        changed = False
        for nm, cs in calls.items():
            if not may.get(nm) and any(may.get(c) for c in cs):
                may[nm] = True
                changed = True
    may["__cls_methods__"], may["__scanned_classes__"] = cls_methods, scanned_classes
    return may


def extract_layout(sc: Scanner):
    notes = {}
    bm = sc.by_rel.get("pybads/bads/bads.py")
    if bm is None or "BADS" not in bm.classes:
        raise Untranslatable("class BADS not found in pybads/bads/bads.py")
    need = ["BADS.__init__", "BADS.optimize", "BADS._init_optimization_", "BADS._init_random_seed_"]
    for q in need:
        if q not in bm.defs:
            raise Untranslatable(f"{q} not found")
    may = _may_draw_table(sc)
    may_wo_seed = dict(may)

    def is_seed_call(e):
        return isinstance(e, ast.Call) and src(e.func) == "self._init_random_seed_" and not e.args and not e.keywords

    def first_random_is(fn, pred, label):
        """the first statement (source order) of fn's body that may draw must be a TOP-LEVEL simple
        statement whose only may-draw call satisfies pred."""
        for st in fn.body:
            hits = []
            for n in ast.walk(st):
                if isinstance(n, ast.Call):
                    if pred(n):
                        hits.append(("target", n))
                        continue
                    q = norm_q(bm.resolve(n.func)) or ""
                    c = _callee_key(n, bm, may["__cls_methods__"], may["__scanned_classes__"])
                    if q.startswith("numpy.random.") or (c and may.get(c)):
                        hits.append(("draw", n))
                    elif isinstance(n.func, ast.Attribute) and n.func.attr in GEN_METHODS and not q and sc.receiver_classes(n.func.value, bm, fn) is not None:
                        hits.append(("draw", n))
            if not hits:
                continue
            kinds = [h[0] for h in hits]
            if kinds == ["target"] and isinstance(st, (ast.Expr, ast.Assign, ast.AnnAssign)):
                notes[label] = "ok: first may-draw statement is `%s`" % src(st, 70)
                return True
            notes[label] = "first may-draw statement is `%s`" % src(st, 70)
            return False
        notes[label] = "no seeding statement found"
        return False

    init = bm.defs["BADS.__init__"]
    ctor_seed_first = first_random_is(init, is_seed_call, "ctor")
    opt = bm.defs["BADS.optimize"]
    opt_a = first_random_is(opt, lambda e: isinstance(e, ast.Call) and src(e.func) == "self._init_optimization_", "optimize")
    opt_b = first_random_is(bm.defs["BADS._init_optimization_"], is_seed_call, "_init_optimization_")

    # the one seed write
    seed_sites = [s for s in sc.sites if s["cat"] == "CSeedWrite"]
    sfn = bm.defs["BADS._init_random_seed_"]
    seed_ok = len(seed_sites) == 1 and seed_sites[0]["file"] == bm.rel and seed_sites[0]["fun"] == "BADS._init_random_seed_"
    if seed_ok:
        seed_ok = False
        allowed_tests = {"'random_seed' in self.options", "self.options['random_seed'] is not None",
                         "self.options.get('random_seed') is not None"}
        for st in sfn.body:
            if isinstance(st, ast.If):
                conj = st.test.values if isinstance(st.test, ast.BoolOp) and isinstance(st.test.op, ast.And) else [st.test]
                texts = {src(c) for c in conj}
                if texts <= allowed_tests and any("is not None" in t for t in texts):
                    for b in st.body:
                        if isinstance(b, ast.Expr) and isinstance(b.value, ast.Call) and norm_q(bm.resolve(b.value.func)) == "numpy.random.seed" \
                                and len(b.value.args) == 1 and not b.value.keywords:
                            a = b.value.args[0]
                            exprs = [a]
                            if isinstance(a, ast.Name):
                                exprs = Scanner._local_defs(a.id, sfn, b.value) or []
                            if exprs and all(src(x) in ("int(self.options['random_seed'])", "self.options['random_seed']") for x in exprs):
                                seed_ok = True
    notes["seed_write"] = "ok" if seed_ok else "np.random.seed sites: " + "; ".join(f"{s['file']}:{s['fun']}:{s['what']}" for s in seed_sites)

    # options loader: rebind before eval, every load passes D, ini free names
    om = sc.by_rel.get("pybads/bads/options.py")
    if om is None:
        raise Untranslatable("pybads/bads/options.py not found")
    loader = getattr(sc, "options_loader", None)
    rebind_ok = loader is not None and loader[0] == om.rel
    dyn = [s for s in sc.sites if s["cat"] == "CDynScope"]
    if any(s["kind"] != "RebindEveryLoad" or s["file"] != om.rel for s in dyn) or not dyn:
        rebind_ok = False
    rebound = None
    for n in ast.walk(bm.tree):
        if isinstance(n, ast.Call):
            c = n.func.id if isinstance(n.func, ast.Name) else n.func.attr if isinstance(n.func, ast.Attribute) else None
            if c in ("Options", "load_options_file", "init_from_existing_options"):
                kw = {k.arg: k.value for k in n.keywords}
                ev = kw.get("evaluation_parameters", n.args[1] if len(n.args) > 1 else None)
                if not isinstance(ev, ast.Dict) or not all(isinstance(k, ast.Constant) for k in ev.keys):
                    rebind_ok = False
                    notes["loads"] = "a load does not pass a literal evaluation_parameters dict: " + src(n, 60)
                    continue
                keys = {k.value for k in ev.keys}
                rebound = keys if rebound is None else rebound & keys
                for k, v in zip(ev.keys, ev.values):
                    if k.value == "D" and src(v) != "self.D":
                        rebind_ok = False
                        notes["loads"] = "D is not bound to self.D: " + src(n, 60)
    rebound = rebound or set()
    notes["rebound_names"] = sorted(rebound)

    # ini defaults
    lazy_ok = True
    ini_dir = om.path.parent / "option_configs"
    ini_files = sorted(p for p in ini_dir.glob("*.ini") if not p.name.startswith("test_"))
    if not ini_files:
        raise Untranslatable("no .ini option files found")
    # names an `eval(value)` inside the loader can see without touching a re-bindable module global:
    # the module's imports, builtins, and the loader's own locals (self, ...: run-local data)
    om_globals = set(om.alias) | BUILTINS | (set(loader[2]) if loader else set())
    for p in ini_files:
        for key, expr in _read_ini(p):
            try:
                tree = ast.parse(expr.strip(), mode="eval")
            except SyntaxError as ex:
                raise Untranslatable(f"{p.name}:{key}: default is not an expression: {ex}")
            if any(isinstance(x, ast.Attribute) and x.attr in ("random", "urandom") or isinstance(x, ast.Name) and x.id in ("random", "rnd", "time", "os", "hash", "id")
                   for x in ast.walk(tree)):
                sc.sites.append(dict(file=str(p.relative_to(core.REPO)), fun=key, what=" ".join(expr.split())[:96], cat="CIniDefault",
                                     seed="Unseeded", kind="Unclassified", pos=(0, 0)))
                continue
            free_now, free_lazy = _free_names(tree.body)
            glob_now = {x for x in free_now if x not in om_globals}
            glob_lazy = {x for x in free_lazy if x not in BUILTINS and x not in ("np",)}
            lazy_mod = {x for x in free_lazy if x in om.alias}     # np inside a lambda: an import, never re-bound
            rel = str(p.relative_to(core.REPO))
            if glob_lazy - lazy_mod:
                lazy_ok = False
                sc.sites.append(dict(file=rel, fun=key, what=" ".join(expr.split())[:96], cat="CIniDefault", seed="SeedNA",
                                     kind="Unclassified", pos=(0, 0)))
            elif glob_now:
                good = glob_now <= rebound and rebind_ok
                sc.sites.append(dict(file=rel, fun=key, what=" ".join(expr.split())[:96], cat="CIniDefault", seed="SeedNA",
                                     kind="RebindEveryLoad" if good else "Unclassified", pos=(0, 0)))
    layout = dict(l_ctor_seed_first=ctor_seed_first, l_opt_reseed_first=opt_a and opt_b, l_seed_from_option=seed_ok,
                  l_rebind_before_eval=rebind_ok, l_no_lazy_global=lazy_ok)
    return layout, notes


def _read_ini(path: Path):
    """(key, expression) pairs of an option file, the way pybads' _read_config_file reads them
    (configparser, one section, '#' lines are descriptions)."""
    import configparser
    cp = configparser.ConfigParser(comment_prefixes=None, allow_no_value=True, strict=False, interpolation=None)
    cp.optionxform = str
    try:
        cp.read_string(path.read_text())
    except configparser.Error as ex:
        raise Untranslatable(f"cannot read {path.name}: {ex}")
    out = []
    for sec in cp.sections():
        for k, v in cp.items(sec):
            if k.lstrip().startswith("#") or v is None:
                continue
            out.append((k, v))
    if not out:
        raise Untranslatable(f"{path.name}: no defaults found")
    return out


def _free_names(e):
    """(names read when the expression is evaluated, names read later inside a lambda body)."""
    now, lazy = set(), set()

    def rec(n, bound, deferred):
        if isinstance(n, ast.Lambda):
            b = bound | fn_params(n)
            for d in n.args.defaults + [k for k in n.args.kw_defaults if k is not None]:
                rec(d, bound, deferred)
            rec(n.body, b, True)
            return
        if isinstance(n, (ast.ListComp, ast.SetComp, ast.GeneratorExp, ast.DictComp)):
            b = set(bound)
            for g in n.generators:
                rec(g.iter, b, deferred)
                for t in ast.walk(g.target):
                    if isinstance(t, ast.Name):
                        b.add(t.id)
                for c in g.ifs:
                    rec(c, b, deferred)
            for part in ([n.key, n.value] if isinstance(n, ast.DictComp) else [n.elt]):
                rec(part, b, deferred or isinstance(n, ast.GeneratorExp))
            return
        if isinstance(n, ast.Name):
            if n.id not in bound:
                (lazy if deferred else now).add(n.id)
            return
        for ch in ast.iter_child_nodes(n):
            rec(ch, bound, deferred)
    rec(e, set(), False)
    return now, lazy


# --------------------------------------------------------------------------- driver


def collect_modules():
    mods = []
    pb = core.REPO / "pybads"
    if not pb.is_dir():
        raise Untranslatable(f"{pb} not found")
    gp = os.environ.get("VERIF_GPYREG")
    if gp:
        gdir = Path(gp)
    else:
        spec = importlib.util.find_spec("gpyreg")
        if spec is None or not spec.submodule_search_locations:
            raise Untranslatable("gpyreg is not installed")
        gdir = Path(list(spec.submodule_search_locations)[0])
    for root in (pb, gdir):
        files = sorted(root.rglob("*.py"))
        if not files:
            raise Untranslatable(f"no modules under {root}")
        for p in files:
            relp = p.relative_to(root.parent)
            if any(part in ("testing", "examples", "__pycache__") for part in relp.parts):
                continue
            mods.append(Mod(p, str(relp)))
    return mods, gdir


def scan():
    mods, gdir = collect_modules()
    sc = Scanner(mods)
    sc.scan()
    layout, notes = extract_layout(sc)
    sc.sites.sort(key=lambda s: (s["file"], s["pos"], s["cat"], s["seed"], s["what"]))
    return sc, layout, notes, gdir


def coq_string(s):
    s = "".join(ch if 32 <= ord(ch) < 127 else "?" for ch in s)
    return '"' + s.replace('"', '""') + '"'


def render(sites, layout, notes, nmods):
    lines = ["(* GENERATED by translate/rng_sites.py from the current source of pybads and gpyreg — do not edit. *)",
             "From Coq Require Import ZArith List String Bool.",
             "From PV Require Import Model.Seeding.",
             "Import ListNotations.",
             "Open Scope string_scope.",
             "",
             f"(* modules scanned: {nmods}; sites: {len(sites)} *)",
             "Definition src_rng_sites : list site := ["]
    rows = []
    for s in sites:
        rows.append("  mk_site %s %s %s %s %s %s" % (coq_string(s["file"]), coq_string(s["fun"]), coq_string(s["what"]),
                                                   s["cat"], s["seed"], s["kind"]))
    lines.append(";\n".join(rows))
    lines.append("].")
    lines.append("")
    for k, v in notes.items():
        lines.append("(* layout note %s: %s *)" % (k, str(v).replace("*)", "* )").replace("(*", "( *")))
    lines.append("Definition src_layout : layout := mk_layout %s %s %s %s %s." % tuple(
        core.cbool(layout[k]) for k in ("l_ctor_seed_first", "l_opt_reseed_first", "l_seed_from_option",
                                        "l_rebind_before_eval", "l_no_lazy_global")))
    return "\n".join(lines) + "\n"


def emit():
    try:
        sc, layout, notes, gdir = scan()
    except Exception as ex:
        # fail closed twice: the obligation is reported broken by ./check AND a stale table from an
        # earlier run cannot keep the lemmas of Props/C07.v alive
        poison = [dict(file="<untranslatable>", fun="<scan failed>", what=str(ex)[:90], cat="CDynScope", seed="Unseeded",
                       kind="Unclassified", pos=(0, 0))]
        core.write_if_changed(core.GEN / "Src_rng_sites.v", render(poison, {k: False for k in (
            "l_ctor_seed_first", "l_opt_reseed_first", "l_seed_from_option", "l_rebind_before_eval", "l_no_lazy_global")},
            {"scan": "failed: " + str(ex)[:200]}, 0))
        if hasattr(emit, "last"):
            del emit.last
        raise
    text = render(sc.sites, layout, notes, len(sc.mods))
    core.write_if_changed(core.GEN / "Src_rng_sites.v", text)
    counts = {k: 0 for k in KINDS}
    for s in sc.sites:
        counts[s["kind"]] += 1
    info = dict(modules=len(sc.mods), sites=len(sc.sites), kinds=counts, layout=layout, gpyreg=str(gdir))
    emit.last = dict(info=info, notes=notes, sites=sc.sites, time_taint=getattr(sc, "time_taint", {}))
    return info


if __name__ == "__main__":
    import json
    import sys
    info = emit()
    print(json.dumps(info, indent=1))
    for s in emit.last["sites"]:
        if "-v" in sys.argv or s["kind"] == "Unclassified":
            print("%-14s %-18s %-20s %s :: %s :: %s" % (s["kind"], s["cat"], s["seed"], s["file"], s["fun"], s["what"]))
    print(json.dumps(emit.last["notes"], indent=1))
    print(json.dumps(emit.last["time_taint"], indent=1))
